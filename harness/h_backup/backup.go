//go:build verif

// Package h_backup: a backup opens to the same log (C20).
package h_backup

import (
	"time"

	"github.com/klev-dev/klevdb"
	"github.com/klev-dev/klevdb/internal/zzverif/kit"
	"github.com/klev-dev/klevdb/internal/zzverif/vrt"
)

func init() {
	vrt.Register("h_backup.Backup", Backup)
}

func checkBackup(l *kit.Log, dst string, want []kit.Rec, next int64, what string) {
	vrt.Assert(klevdb.Check(dst, l.Options()) == nil, what+": the backup passes Check")
	o := l.Options()
	o.Readonly = true
	b, err := klevdb.Open(dst, o)
	vrt.Assert(err == nil, what+": the backup opens")
	if err != nil {
		return
	}
	kit.Observe(b, want, next, what+": backup")
	vrt.Assert(b.Close() == nil, what+": close backup")
}

// Backup into an empty directory, then again into the same directory after
// publish-only steps; through Log.Backup or the package-level Backup.
func Backup() {
	sh := kit.ChooseShape()
	l := kit.Gen(sh, true, true)
	l.MonotoneTimes()
	if vrt.Choose("rmindex", 2) == 1 {
		// the source was reopened after its index files were removed (they are derived data)
		for i := range l.Segs {
			l.Segs[i].Index = false
		}
		vrt.Reach("source-without-index-files")
	}
	l.Build("d")
	dst := vrt.Dir("b")
	live := l.Live()
	viaLog := vrt.Choose("vialog", 2) == 1
	opts := l.Options()
	opts.Rollover = vrt.Int64("rollover")
	var lg klevdb.Log
	var err error
	if viaLog {
		lg, err = klevdb.Open(l.Dir, opts)
		vrt.Assert(err == nil, "Open source")
		if err != nil {
			return
		}
		vrt.Assert(lg.Backup(dst) == nil, "Log.Backup succeeds")
		vrt.Reach("log-backup")
	} else {
		vrt.Assert(klevdb.Backup(l.Dir, dst) == nil, "Backup(src, dst) succeeds")
		vrt.Reach("dir-backup")
	}
	checkBackup(l, dst, live, l.Next, "first backup")
	// publish-only step(s) on the source, then backup again into the same directory
	rounds := vrt.Choose("rounds", vrt.Bound("rounds", 1)+1)
	want := append([]kit.Rec{}, live...)
	next := l.Next
	for r := 0; r < rounds; r++ {
		if !viaLog {
			lg, err = klevdb.Open(l.Dir, opts)
			vrt.Assert(err == nil, "Open source")
			if err != nil {
				return
			}
		}
		// one or two Publish calls between two backups (a segment may grow and then be sealed)
		pubs := 1 + vrt.Choose("pubs", vrt.Bound("pubs", 2))
		for pi := 0; pi < pubs; pi++ {
			us := vrt.Int64("pus")
			if len(want) > 0 {
				vrt.Assume(us >= want[len(want)-1].Us)
			}
			vrt.Assume(us >= 0)
			msgs := []klevdb.Message{{Time: time.UnixMicro(us), Key: vrt.Bytes("pkey", 1), Value: vrt.Bytes("pval", 1)}}
			vrt.Assume(!msgs[0].Time.IsZero())
			n, err := lg.Publish(msgs)
			vrt.Assert(err == nil && n == next+1, "Publish on the source")
			want = append(want, kit.Rec{Off: next, Us: us, Key: msgs[0].Key, Val: msgs[0].Value})
			next++
		}
		if viaLog {
			vrt.Assert(lg.Backup(dst) == nil, "repeated Log.Backup succeeds")
		} else {
			vrt.Assert(lg.Close() == nil, "Close source")
			vrt.Assert(klevdb.Backup(l.Dir, dst) == nil, "repeated Backup(src, dst) succeeds")
		}
		vrt.Reach("repeated-backup")
		checkBackup(l, dst, want, next, "repeated backup")
	}
	if viaLog {
		kit.Observe(lg, want, next, "source after backup")
		vrt.Assert(lg.Close() == nil, "Close source")
	}
	// the source is unchanged
	d := kit.DecodeDir(l.Dir, l.Times, l.Keys, true, "source after backup")
	kit.SameLog(d, want, next, "source after backup")
}
