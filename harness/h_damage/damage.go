//go:build verif

// Package h_damage: a damaged record is never returned as data (C14).
package h_damage

import (
	"path/filepath"
	"time"

	"github.com/klev-dev/klevdb"
	"github.com/klev-dev/klevdb/internal/zzverif/kit"
	"github.com/klev-dev/klevdb/internal/zzverif/vrt"
	"github.com/klev-dev/klevdb/pkg/message"
)

func init() {
	vrt.Register("h_damage.ReadOverwritten", ReadOverwritten)
	vrt.Register("h_damage.ReadTruncated", ReadTruncated)
	vrt.Register("h_damage.DirOverwritten", DirOverwritten)
	vrt.Register("h_damage.DirTruncated", DirTruncated)
}

// DirTruncated: one segment's log file cut short at a symbolic length (index
// files intact); no call returns a wrong message and no call panics.
func DirTruncated() {
	ls := kit.Layouts(vrt.Bound("segs", 2), vrt.Bound("recs", 2))
	counts := ls[vrt.Choose("layout", len(ls))]
	l := kit.Gen(kit.Shape{Counts: counts, Profile: 0}, true, true)
	l.MonotoneTimes()
	si := vrt.Choose("dseg", vrt.Bound("segs", 2))
	vrt.Assume(si < len(l.Segs) && len(l.Segs[si].Recs) > 0)
	l.Build("d")
	s := &l.Segs[si]
	pos := 8
	var ends []int
	starts := []int{}
	for _, r := range s.Recs {
		starts = append(starts, pos)
		pos += kit.RecordSize(false, len(r.Key), len(r.Val))
		ends = append(ends, pos)
	}
	// the cut falls inside the header (part 0) or the data (part 1) of record ck
	ck := vrt.Choose("cutrec", vrt.Bound("recs", 2))
	vrt.Assume(ck < len(s.Recs))
	var L int
	if vrt.Choose("cutpart", 2) == 0 {
		L = vrt.IntRange("L", starts[ck], starts[ck]+27)
		vrt.Reach("cut-in-header")
	} else {
		L = vrt.IntRange("L", starts[ck]+28, ends[ck]-1)
		vrt.Reach("cut-in-data")
	}
	vrt.Truncate(vrt.SegName(l.Dir, s.Base, ".log"), L)
	lg, err := klevdb.Open(l.Dir, l.Options())
	if err != nil {
		vrt.Reach("open-fails")
		return
	}
	live := l.Live()
	cut := func(off int64) bool {
		c := false
		for k, r := range s.Recs {
			c = vrt.Or(c, vrt.And(r.Off == off, ends[k] > L))
		}
		return c
	}
	for _, r := range live {
		m, err := lg.Get(r.Off)
		vrt.Assert(vrt.Implies(cut(r.Off), err != nil), "Get of a record that was cut off fails")
		if err == nil {
			vrt.Assert(kit.Same(m, r), "Get never returns a message that differs from the published one")
		}
	}
	qs := []int64{klevdb.OffsetOldest}
	for _, r := range live {
		qs = append(qs, r.Off)
	}
	for _, q := range qs {
		_, msgs, err := lg.Consume(q, 2)
		if err == nil {
			i0 := kit.LowerBound(live, q)
			for j, m := range msgs {
				vrt.Assert(i0+j < len(live) && kit.Same(m, live[i0+j]), "Consume never returns a message that differs from the published one")
			}
		}
	}
	for _, r := range live {
		m, err := lg.GetByKey(r.Key)
		if err == nil {
			i := kit.LowerBound(live, m.Offset)
			vrt.Assert(i < len(live) && kit.Same(m, live[i]), "GetByKey never returns a message that differs from the published one")
		}
		tm, err := lg.GetByTime(time.UnixMicro(r.Us))
		if err == nil {
			i := kit.LowerBound(live, tm.Offset)
			vrt.Assert(i < len(live) && kit.Same(tm, live[i]), "GetByTime never returns a message that differs from the published one")
		}
	}
	vrt.Reach("dir-truncated")
	lg.Close()
}

// fieldRange: byte range of field f of the V2 record starting at s
// (0 crc, 1 offset, 2 time, 3 key length, 4 value length, 5 key, 6 value, 7 trailer).
func fieldRange(s, kl, vl, f int) (int, int) {
	b := []int{0, 4, 12, 20, 24, 28, 28 + kl, 28 + kl + vl, 36 + kl + vl}
	return s + b[f], s + b[f+1]
}

// overwrite returns the bytes with a window of w symbolic bytes written at a
// symbolic position inside the chosen field of record rk (kind 0), or with
// everything from that position on replaced by zeros (kind 1: zero-filled tail).
func overwrite(orig []byte, starts []int, recs []kit.Rec, nrecBound int) ([]byte, int) {
	region := vrt.Choose("region", 8*nrecBound)
	rk, rf := region/8, region%8
	vrt.Assume(rk < len(recs))
	lo, hi := fieldRange(starts[rk], len(recs[rk].Key), len(recs[rk].Val), rf)
	vrt.Assume(lo < hi)
	p := vrt.IntRange("p", lo, hi-1)
	dmg := make([]byte, len(orig))
	copy(dmg, orig)
	if vrt.Choose("kind", 2) == 1 {
		vrt.Reach("zero-filled-tail")
		for i := lo; i < len(orig); i++ {
			dmg[i] = vrt.IteByte(i >= p, 0, orig[i])
		}
		return dmg, rk
	}
	w := 1
	if vrt.Choose("wide", 2) == 1 {
		w = 8
	}
	x := vrt.Bytes("x", w)
	for i := lo; i < hi+w-1 && i < len(orig); i++ {
		b := orig[i]
		for j := 0; j < w; j++ {
			b = vrt.IteByte(p+j == i, x[j], b)
		}
		dmg[i] = b
	}
	if w == 8 {
		vrt.Reach("eight-byte-overwrite")
	} else {
		vrt.Reach("one-byte-overwrite")
	}
	return dmg, rk
}

type fx struct {
	recs   []kit.Rec
	starts []int
	orig   []byte
	base   int64
}

func gen(nb int) *fx {
	n := 1 + vrt.Choose("n", nb)
	prof := vrt.Choose("prof", vrt.Bound("profs", 2))
	l := kit.Gen(kit.Shape{Counts: []int{n}, Profile: prof}, false, false)
	f := &fx{recs: l.Segs[0].Recs, base: l.Segs[0].Base}
	f.orig = l.Segs[0].LogBytes()
	pos := 8
	for _, r := range f.recs {
		f.starts = append(f.starts, pos)
		pos += kit.RecordSize(false, len(r.Key), len(r.Val))
	}
	return f
}

func sameRec(m message.Message, r kit.Rec) bool {
	return vrt.And(m.Offset == r.Off, m.Time.UnixMicro() == r.Us, vrt.BytesEqual(m.Key, r.Key), vrt.BytesEqual(m.Value, r.Val))
}

func changed(dmg, orig []byte, lo, hi int) bool {
	c := false
	for i := lo; i < hi && i < len(orig); i++ {
		c = vrt.Or(c, dmg[i] != orig[i])
	}
	return c
}

// ReadOverwritten: both reader kinds on a V2 file with an in-place overwrite.
func ReadOverwritten() {
	nb := vrt.Bound("recs", 2)
	f := gen(nb)
	dmg, _ := overwrite(f.orig, f.starts, f.recs, nb)
	for k := range f.recs {
		kit.AssumeRecordInvalidIfChanged(dmg, f.starts[k], f.orig)
	}
	dir := vrt.Dir("c")
	path := filepath.Join(dir, "seg.log")
	vrt.WriteFile(path, dmg)
	mem := vrt.Choose("mem", 2) == 1
	var r *message.Reader
	var err error
	if mem {
		r, err = message.OpenReaderMem(path, f.base)
	} else {
		r, err = message.OpenReader(path, f.base)
	}
	vrt.Assert(err == nil, "the file header is intact: the reader opens")
	if err != nil {
		return
	}
	ends := append(append([]int{}, f.starts[1:]...), len(f.orig))
	mark := vrt.AllocMark()
	for k := range f.recs {
		m, next, err := r.Read(int64(f.starts[k]))
		vrt.Assert(vrt.AllocOK(mark, 128<<20), "allocation size stays within the documented bound")
		ch := changed(dmg, f.orig, f.starts[k], ends[k])
		vrt.Assert(vrt.Implies(ch, err != nil), "reading an overwritten record fails")
		vrt.Assert(vrt.Implies(!ch, err == nil), "reading an untouched record succeeds")
		if err == nil {
			vrt.Assert(sameRec(m, f.recs[k]), "a record that is returned is identical to the published one")
			vrt.Assert(next == int64(ends[k]), "next position of a returned record")
		}
	}
	msgs, err := r.Consume(int64(f.starts[0]), int64(f.starts[len(f.starts)-1]), int64(len(f.recs)))
	anyChanged := false
	for k := range f.recs {
		anyChanged = vrt.Or(anyChanged, changed(dmg, f.orig, f.starts[k], ends[k]))
	}
	vrt.Assert(vrt.Implies(anyChanged, err != nil), "a Consume whose answer would include an overwritten record fails")
	if err == nil {
		vrt.Assert(len(msgs) == len(f.recs), "Consume over intact records returns all of them")
		for i, m := range msgs {
			vrt.Assert(i < len(f.recs) && sameRec(m, f.recs[i]), "Consume never returns a record that differs from the published one")
		}
	}
	r.Close()
}

// ReadTruncated: the file cut at a symbolic length; nothing but published records is returned.
func ReadTruncated() {
	nb := vrt.Bound("recs", 2)
	f := gen(nb)
	dir := vrt.Dir("c")
	path := filepath.Join(dir, "seg.log")
	vrt.WriteFile(path, f.orig)
	L := vrt.IntRange("L", 8, len(f.orig))
	vrt.Truncate(path, L)
	mem := vrt.Choose("mem", 2) == 1
	var r *message.Reader
	var err error
	if mem {
		r, err = message.OpenReaderMem(path, f.base)
	} else {
		r, err = message.OpenReader(path, f.base)
	}
	vrt.Assert(err == nil, "the file header is intact: the reader opens")
	if err != nil {
		return
	}
	ends := append(append([]int{}, f.starts[1:]...), len(f.orig))
	for k := range f.recs {
		m, _, err := r.Read(int64(f.starts[k]))
		vrt.Assert(vrt.Implies(ends[k] <= L, err == nil), "a record that lies completely below the cut is read")
		vrt.Assert(vrt.Implies(ends[k] > L, err != nil), "a record that is cut is not returned")
		if err == nil {
			vrt.Assert(sameRec(m, f.recs[k]), "a record that is returned is identical to the published one")
		}
	}
	msgs, err := r.Consume(int64(f.starts[0]), int64(f.starts[len(f.starts)-1]), int64(len(f.recs)))
	if err == nil {
		for i, m := range msgs {
			vrt.Assert(i < len(f.recs) && sameRec(m, f.recs[i]), "Consume never returns a record that differs from the published one")
		}
	}
	vrt.Reach("truncated")
	r.Close()
}

// DirOverwritten: a multi-segment V2 log, one segment's log file overwritten in
// place (index files intact), opened with default options; every read call
// returns an error or exactly the undamaged answer; calls answered from other
// segments are unaffected.
func DirOverwritten() {
	ls := kit.Layouts(vrt.Bound("segs", 2), vrt.Bound("recs", 2))
	counts := ls[vrt.Choose("layout", len(ls))]
	prof := vrt.Choose("prof", vrt.Bound("profs", 1))
	l := kit.Gen(kit.Shape{Counts: counts, Profile: prof}, true, true)
	l.MonotoneTimes()
	si := vrt.Choose("dseg", vrt.Bound("segs", 2))
	vrt.Assume(si < len(l.Segs) && len(l.Segs[si].Recs) > 0)
	l.Build("d")
	s := &l.Segs[si]
	orig := s.LogBytes()
	var starts []int
	pos := 8
	for _, r := range s.Recs {
		starts = append(starts, pos)
		pos += kit.RecordSize(false, len(r.Key), len(r.Val))
	}
	dmg, _ := overwrite(orig, starts, s.Recs, vrt.Bound("recs", 2))
	ends := append(append([]int{}, starts[1:]...), len(orig))
	bad := make([]bool, len(s.Recs))
	for k := range s.Recs {
		kit.AssumeRecordInvalidIfChanged(dmg, starts[k], orig)
		bad[k] = changed(dmg, orig, starts[k], ends[k])
	}
	vrt.WriteFile(vrt.SegName(l.Dir, s.Base, ".log"), dmg)
	lg, err := klevdb.Open(l.Dir, l.Options())
	if si < len(l.Segs)-1 {
		vrt.Assert(err == nil, "Open with default options succeeds when a non-head segment is damaged")
	}
	if err != nil {
		vrt.Reach("open-fails")
		return
	}
	live := l.Live()
	isBad := func(off int64) bool {
		b := false
		for k, r := range s.Recs {
			b = vrt.Or(b, vrt.And(r.Off == off, bad[k]))
		}
		return b
	}
	inDamagedSeg := func(off int64) bool {
		in := false
		for _, r := range s.Recs {
			in = vrt.Or(in, r.Off == off)
		}
		return in
	}
	// Get of every live offset
	mark := vrt.AllocMark()
	for _, r := range live {
		m, err := lg.Get(r.Off)
		vrt.Assert(vrt.AllocOK(mark, 128<<20), "allocation size stays within the documented bound")
		vrt.Assert(vrt.Implies(isBad(r.Off), err != nil), "Get of an overwritten record fails")
		vrt.Assert(vrt.Implies(!inDamagedSeg(r.Off), err == nil), "Get answered from another segment file is unaffected")
		if err == nil {
			vrt.Assert(kit.Same(m, r), "Get never returns a message that differs from the published one")
		}
	}
	// Consume from every live offset and from the oldest
	qs := []int64{klevdb.OffsetOldest}
	for _, r := range live {
		qs = append(qs, r.Off)
	}
	segOf := func(off int64) int {
		for sj := range l.Segs {
			for _, r := range l.Segs[sj].Recs {
				if r.Off == off {
					return sj
				}
			}
		}
		return -1
	}
	for _, q := range qs {
		_, msgs, err := lg.Consume(q, 2)
		i0 := kit.LowerBound(live, q)
		// the answer would be up to two messages of the segment that holds the first one
		if i0 < len(live) {
			would := isBad(live[i0].Off)
			if i0+1 < len(live) && segOf(live[i0+1].Off) == segOf(live[i0].Off) {
				would = vrt.Or(would, isBad(live[i0+1].Off))
			}
			vrt.Assert(vrt.Implies(would, err != nil), "a Consume whose answer would include an overwritten record fails")
		}
		if err == nil {
			for j, m := range msgs {
				vrt.Assert(i0+j < len(live) && kit.Same(m, live[i0+j]), "Consume never returns a message that differs from the published one")
				vrt.Assert(!isBad(m.Offset), "Consume never returns an overwritten record")
			}
		}
	}
	// key and time lookups
	for _, r := range live {
		m, err := lg.GetByKey(r.Key)
		if err == nil {
			i := kit.LowerBound(live, m.Offset)
			vrt.Assert(i < len(live) && kit.Same(m, live[i]), "GetByKey never returns a message that differs from the published one")
			vrt.Assert(!isBad(m.Offset), "GetByKey never returns an overwritten record")
		}
		tm, err := lg.GetByTime(time.UnixMicro(r.Us))
		if err == nil {
			i := kit.LowerBound(live, tm.Offset)
			vrt.Assert(i < len(live) && kit.Same(tm, live[i]), "GetByTime never returns a message that differs from the published one")
			vrt.Assert(!isBad(tm.Offset), "GetByTime never returns an overwritten record")
		}
		_, kms, err := lg.ConsumeByKey(r.Key, klevdb.OffsetOldest, 4)
		// the answer would be the live messages with that key of the first segment that has one
		firstSeg := -1
		wouldBad := false
		for _, x := range live {
			if vrt.BytesEqual(x.Key, r.Key) {
				if firstSeg == -1 {
					firstSeg = segOf(x.Off)
				}
				if segOf(x.Off) == firstSeg {
					wouldBad = vrt.Or(wouldBad, isBad(x.Off))
				}
			}
		}
		vrt.Assert(vrt.Implies(wouldBad, err != nil), "a ConsumeByKey whose answer would include an overwritten record fails")
		if err == nil {
			for _, m := range kms {
				i := kit.LowerBound(live, m.Offset)
				vrt.Assert(i < len(live) && kit.Same(m, live[i]), "ConsumeByKey never returns a message that differs from the published one")
			}
		}
	}
	vrt.Reach("dir-damaged")
	lg.Close()
}
