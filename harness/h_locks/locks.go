//go:build verif

// Package h_locks: one writer at a time; read-only handles never modify data (C19).
package h_locks

import (
	"github.com/klev-dev/klevdb"
	"github.com/klev-dev/klevdb/internal/zzverif/kit"
	"github.com/klev-dev/klevdb/internal/zzverif/vrt"
)

func init() {
	vrt.Register("h_locks.LockMatrix", LockMatrix)
	vrt.Register("h_locks.ReadonlySession", ReadonlySession)
}

type handle struct {
	lg klevdb.Log
	ro bool
}

// LockMatrix: a sequence of up to `steps` operations over up to three handles
// on one directory, checked against the exclusion matrix of the statement.
func LockMatrix() {
	l := kit.Gen(kit.Shape{Counts: []int{1}, Profile: 0}, true, true)
	l.Build("d")
	good := l.Options()
	bad := good
	bad.KeyIndex = false // index parameters differ from the stored ones: Open fails after taking the lock
	var hs [3]*handle
	steps := vrt.Bound("steps", 4)
	published := 0
	for k := 0; k < steps; k++ {
		nrw, nro, free := 0, 0, -1
		for i, h := range hs {
			switch {
			case h == nil:
				if free < 0 {
					free = i
				}
			case h.ro:
				nro++
			default:
				nrw++
			}
		}
		opName := "op"
		if k == 0 {
			opName = "op0" // the first step is a shape variable (one worker per value)
		}
		switch vrt.Choose(opName, 6) {
		case 0: // open read-write
			if free < 0 {
				vrt.Assume(false)
			}
			lg, err := klevdb.Open(l.Dir, good)
			if nrw+nro == 0 {
				vrt.Assert(err == nil, "read-write Open succeeds when no handle is open")
			} else {
				vrt.Reach("rw-refused")
				vrt.Assert(err != nil, "read-write Open fails while the directory is open (read-write or read-only)")
			}
			if err == nil {
				hs[free] = &handle{lg: lg}
			}
		case 1: // open read-only
			if free < 0 {
				vrt.Assume(false)
			}
			o := good
			o.Readonly = true
			lg, err := klevdb.Open(l.Dir, o)
			if nrw == 0 {
				if nro > 0 {
					vrt.Reach("second-reader")
				}
				vrt.Assert(err == nil, "read-only Open succeeds while only read-only handles are open")
			} else {
				vrt.Reach("ro-refused")
				vrt.Assert(err != nil, "read-only Open fails while the directory is open read-write")
			}
			if err == nil {
				hs[free] = &handle{lg: lg, ro: true}
			}
		case 2: // close one handle
			i := vrt.Choose("which", 3)
			if hs[i] == nil {
				vrt.Assume(false)
			}
			vrt.Assert(hs[i].lg.Close() == nil, "Close succeeds")
			hs[i] = nil
			vrt.Reach("closed")
		case 3: // an Open that fails for another reason (read-write, wrong index parameters)
			lg, err := klevdb.Open(l.Dir, bad)
			vrt.Assert(err != nil, "Open with changed index parameters fails")
			if err == nil {
				lg.Close()
			}
			vrt.Reach("failed-open")
		case 4: // an Open of a missing directory without CreateDirs
			_, err := klevdb.Open(l.Dir+"/missing", good)
			vrt.Assert(err != nil, "Open of a missing directory fails")
		default: // publish on the writer
			var w *handle
			for _, h := range hs {
				if h != nil && !h.ro {
					w = h
				}
			}
			if w == nil {
				vrt.Assume(false)
			}
			_, err := w.lg.Publish([]klevdb.Message{{Key: []byte{1}, Value: []byte{2}}})
			vrt.Assert(err == nil, "Publish on the writer succeeds")
			published++
		}
	}
	// the lock is released by Close and by a failed Open: after closing everything a writer opens
	for i, h := range hs {
		if h != nil {
			vrt.Assert(h.lg.Close() == nil, "Close succeeds")
			hs[i] = nil
		}
	}
	lg, err := klevdb.Open(l.Dir, good)
	vrt.Assert(err == nil, "after every handle is closed a read-write Open succeeds (locks released by Close and by failed Opens)")
	if err == nil {
		n, _ := lg.NextOffset()
		vrt.Assert(n == l.Next+int64(published), "the writer's publishes are all there")
		lg.Close()
	}
	vrt.Reach("matrix-done")
}

// ReadonlySession: a read-only handle answers like a read-write one, rejects
// Publish and Delete with ErrReadonly and never changes any log file.
func ReadonlySession() {
	sh := kit.ChooseShape()
	l := kit.Gen(sh, true, true)
	l.MonotoneTimes()
	if vrt.Choose("rmindex", 2) == 1 {
		for i := range l.Segs {
			l.Segs[i].Index = false
		}
		vrt.Reach("without-index-files")
	}
	l.Build("d")
	o := l.Options()
	o.Readonly = true
	lg, err := klevdb.Open(l.Dir, o)
	vrt.Assert(err == nil, "read-only Open succeeds")
	if err != nil {
		return
	}
	live := l.Live()
	kit.Observe(lg, live, l.Next, "read-only handle")
	for _, r := range live {
		m, err := lg.GetByKey(r.Key)
		vrt.Assert(err == nil && vrt.BytesEqual(m.Key, r.Key), "read-only GetByKey")
	}
	_, err = lg.Publish([]klevdb.Message{{Key: []byte{1}}})
	vrt.Assert(vrt.ErrIs(err, klevdb.ErrReadonly), "Publish on a read-only handle => ErrReadonly")
	_, _, err = lg.Delete(map[int64]struct{}{l.Segs[0].Base: {}})
	vrt.Assert(vrt.ErrIs(err, klevdb.ErrReadonly), "Delete on a read-only handle => ErrReadonly")
	// a second read-only handle at the same time
	lg2, err := klevdb.Open(l.Dir, o)
	vrt.Assert(err == nil, "a second read-only Open succeeds")
	if err == nil {
		n, err := lg2.NextOffset()
		vrt.Assert(err == nil && n == l.Next, "second reader: NextOffset")
		vrt.Assert(lg2.Close() == nil, "Close second reader")
	}
	vrt.Assert(lg.Close() == nil, "Close")
	// no log file changed, appeared or disappeared
	bases := vrt.SegOffsets(l.Dir)
	vrt.Assert(len(bases) == len(l.Segs), "a read-only session creates and removes no log file")
	for i := range l.Segs {
		got, ok := vrt.ReadFile(vrt.SegName(l.Dir, l.Segs[i].Base, ".log"))
		want := l.Segs[i].LogBytes()
		vrt.Assert(ok && len(got) == len(want) && vrt.BytesEqual(got, want), "a read-only session never changes a log file")
	}
	vrt.Reach("readonly-session")
}
