//go:build verif

// Package h_crash: a crash at any file-system step leaves a log that Recover
// reopens consistently (C05); everything below the offset returned by Sync
// survives losing unsynced data (C06). The workload runs inside vrt.Crashable:
// every file-system mutation of klevdb is a crash point decided by the solver
// harness (and, in mode 5, appends may be torn at any byte; in mode 6 every
// file loses a symbolic part of its unsynced tail).
package h_crash

import (
	"context"
	"time"

	"github.com/klev-dev/klevdb"
	"github.com/klev-dev/klevdb/internal/zzverif/kit"
	"github.com/klev-dev/klevdb/internal/zzverif/vrt"
)

func init() {
	vrt.Register("h_crash.Publish", Publish)
	vrt.Register("h_crash.Delete", Delete)
	vrt.Register("h_crash.Migrate", Migrate)
	vrt.Register("h_crash.Recover", Recover)
}

// gen: a well-formed directory whose keys are pairwise different and whose
// times strictly increase (the crash behaviour does not depend on key or time
// coincidences; those are the subject of C09/C10), so that the many lookups of
// the post-crash comparison do not fork.
func gen() *kit.Log {
	sh := kit.ChooseShape()
	l := kit.Gen(sh, true, true)
	l.MonotoneTimes()
	live := l.Live()
	for i := range live {
		if len(live[i].Key) > 0 {
			vrt.Assume(live[i].Key[0] == byte(i))
		}
		if i > 0 {
			vrt.Assume(live[i].Us > live[i-1].Us)
		}
	}
	l.Build("d")
	return l
}

// tapBound: the number of crash points of the workload must not exceed the
// bound the driver enumerates (an unwinding assertion for crash points).
func tapBound() {
	vrt.Assert(vrt.CrashTaps() <= vrt.Bound("taps", 64), "the crash-point bound covers every file-system call of the workload")
}

func lastUs(recs []kit.Rec) int64 {
	if len(recs) == 0 {
		return 0
	}
	return recs[len(recs)-1].Us
}

// recovered opens the crash image with Recover and checks that the log shows
// base ++ a prefix of inflight (mustAll: everything in `base` is required;
// otherwise base may itself lose an unacknowledged suffix down to `durable`
// messages), that every view agrees, that NextOffset is at least minNext, that
// recovering again changes nothing and that the log can be appended to and
// still passes Check.
func recovered(l *kit.Log, dir string, base []kit.Rec, inflight []kit.Rec, durable int, minNext int64, what string) {
	opts := l.Options()
	opts.Recover = true
	lg, err := klevdb.Open(dir, opts)
	vrt.Assert(err == nil, what+": Open with Recover succeeds after the crash")
	if err != nil {
		return
	}
	all := append(append([]kit.Rec{}, base...), inflight...)
	// scan
	var got []klevdb.Message
	q := klevdb.OffsetOldest
	for step := 0; step < len(all)+6; step++ {
		n, msgs, err := lg.Consume(q, 4)
		vrt.Assert(err == nil, what+": scan after recovery: no error")
		if err != nil {
			return
		}
		got = append(got, msgs...)
		if len(msgs) == 0 {
			break
		}
		q = n
	}
	vrt.Assert(len(got) <= len(all), what+": nothing invented")
	vrt.Assert(len(got) >= durable, what+": every acknowledged message is there")
	for i := range got {
		if i < len(all) {
			vrt.Assert(kit.Same(got[i], all[i]), what+": the recovered log is the acknowledged messages followed by a prefix of the batch in flight")
		}
	}
	if len(got) > len(base) {
		vrt.Reach("inflight-prefix-survived")
	}
	next, err := lg.NextOffset()
	vrt.Assert(err == nil && next >= minNext, what+": NextOffset has not moved backwards")
	if len(got) > 0 {
		vrt.Assert(next > got[len(got)-1].Offset, what+": NextOffset lies above every recovered message")
	}
	// all views agree
	for _, m := range got {
		g, err := lg.Get(m.Offset)
		vrt.Assert(err == nil && g.Offset == m.Offset && vrt.BytesEqual(g.Value, m.Value), what+": Get agrees with the scan")
		k, err := lg.GetByKey(m.Key)
		vrt.Assert(err == nil && vrt.BytesEqual(k.Key, m.Key) && k.Offset >= m.Offset, what+": GetByKey agrees with the scan")
		t, err := lg.GetByTime(m.Time)
		vrt.Assert(err == nil && t.Offset <= m.Offset, what+": GetByTime agrees with the scan")
	}
	st, err := lg.Stat()
	vrt.Assert(err == nil && st.Messages == len(got), what+": Stat agrees with the scan")
	vrt.Assert(lg.Close() == nil, what+": Close after recovery")
	// recovering again changes nothing
	before := vrt.Snapshot(dir)
	vrt.Assert(klevdb.Recover(dir, l.Options()) == nil, what+": second Recover succeeds")
	after := vrt.Snapshot(dir)
	vrt.Assert(vrt.SameSnapshot(before, after), what+": recovering again changes nothing")
	// the log can be appended to and still passes Check
	o2 := l.Options()
	lg, err = klevdb.Open(dir, o2)
	vrt.Assert(err == nil, what+": reopen after recovery")
	if err != nil {
		return
	}
	us := vrt.Int64("aus")
	vrt.Assume(us > lastUs(all))
	msgs := []klevdb.Message{{Time: time.UnixMicro(us), Key: []byte{200}, Value: vrt.Bytes("aval", 1)}}
	n, err := lg.Publish(msgs)
	vrt.Assert(err == nil && n == next+1, what+": Publish after recovery continues at NextOffset")
	vrt.Assert(lg.Close() == nil, what+": Close")
	vrt.Assert(klevdb.Check(dir, l.Options()) == nil, what+": Check passes after recovery and a further append")
}

// Publish: k publishes (batches of 1..2) with a rollover threshold that forces
// rollovers, optional Sync / AutoSync, then Close — crash anywhere.
func Publish() {
	l := gen()
	opts := l.Options()
	switch vrt.Choose("roll", 2) {
	case 1:
		opts.Rollover = 1 // every publish on a non-empty head rolls over
	}
	opts.AutoSync = vrt.Bound("crash_mode", 5) == 6 && vrt.Choose("autosync", 2) == 1
	acked := l.Live()
	ackedNext := l.Next
	durable := len(acked) // messages that must survive (mode 6: acknowledged by Sync/AutoSync/Close)
	durableNext := l.Next
	var inflight []kit.Rec
	k := 1 + vrt.Choose("publishes", vrt.Bound("publishes", 2))
	mode6 := vrt.Bound("crash_mode", 5) == 6
	dir, crashed := vrt.Crashable(l.Dir, func() {
		lg, err := klevdb.Open(l.Dir, opts)
		vrt.Assert(err == nil, "Open")
		if err != nil {
			vrt.Assume(false)
		}
		for i := 0; i < k; i++ {
			b := 1 + vrt.Choose("batch", vrt.Bound("batch", 2))
			msgs := make([]klevdb.Message, b)
			inflight = nil
			us := lastUs(acked)
			for j := range msgs {
				u := vrt.Int64("pus")
				vrt.Assume(u > us)
				us = u
				msgs[j] = klevdb.Message{Time: time.UnixMicro(u), Key: []byte{byte(100 + 10*i + j)}, Value: vrt.Bytes("pval", 1)}
				inflight = append(inflight, kit.Rec{Off: ackedNext + int64(j), Us: u, Key: msgs[j].Key, Val: msgs[j].Value})
			}
			n, err := lg.Publish(msgs)
			vrt.Assert(err == nil && n == ackedNext+int64(b), "Publish")
			acked = append(acked, inflight...)
			inflight = nil
			ackedNext = n
			if opts.AutoSync {
				durable, durableNext = len(acked), ackedNext
			}
			if mode6 && vrt.Choose("sync", 2) == 1 {
				w, err := lg.Sync()
				vrt.Assert(err == nil && w == ackedNext, "Sync returns NextOffset")
				durable, durableNext = len(acked), w
				vrt.Reach("synced")
			}
		}
		vrt.Assert(lg.Close() == nil, "Close")
		durable, durableNext = len(acked), ackedNext
	})
	if crashed {
		vrt.Reach("crashed")
	} else {
		vrt.Reach("completed")
		tapBound()
	}
	if mode6 {
		// tail loss: acknowledged-but-unsynced messages may be lost, synced ones may not
		recovered(l, dir, acked, inflight, durable, durableNext, "after power loss")
	} else {
		recovered(l, dir, acked, inflight, len(acked), ackedNext, "after crash")
	}
}

// Delete: one Delete (reader segment or head; rebasing, emptying, tail) — crash
// anywhere; the delete is applied completely or not at all.
func Delete() {
	l := gen()
	live := l.Live()
	vrt.Assume(len(live) > 0)
	opts := l.Options()
	// delete set: a non-empty subset of one segment's records
	si := vrt.Choose("dseg", len(l.Segs))
	vrt.Assume(len(l.Segs[si].Recs) > 0)
	set := map[int64]struct{}{}
	var rest []kit.Rec
	ndel := 0
	for sj, s := range l.Segs {
		for _, r := range s.Recs {
			if sj == si && vrt.Choose("pick", 2) == 1 {
				set[r.Off] = struct{}{}
				ndel++
			} else {
				rest = append(rest, r)
			}
		}
	}
	vrt.Assume(ndel > 0)
	done := false
	dir, crashed := vrt.Crashable(l.Dir, func() {
		lg, err := klevdb.Open(l.Dir, opts)
		vrt.Assert(err == nil, "Open")
		if err != nil {
			vrt.Assume(false)
		}
		deleted, _, err := lg.Delete(set)
		vrt.Assert(err == nil && len(deleted) == ndel, "Delete")
		done = true
		vrt.Assert(lg.Close() == nil, "Close")
	})
	if crashed {
		vrt.Reach("crashed")
	} else {
		tapBound()
	}
	// known finding C05-rebase-overlap: the first message of a segment is deleted
	// while others survive (the segment is renamed to a new base) and the process
	// dies before the old segment is removed
	firstPicked := false
	if _, ok := set[l.Segs[si].Recs[0].Off]; ok {
		firstPicked = true
	}
	vrt.Known("C05-rebase-overlap", crashed && firstPicked && ndel < len(l.Segs[si].Recs))
	ro := l.Options()
	ro.Recover = true
	lg, err := klevdb.Open(dir, ro)
	vrt.Assert(err == nil, "Open with Recover succeeds after a crash during Delete")
	if err != nil {
		return
	}
	var got []klevdb.Message
	q := klevdb.OffsetOldest
	for step := 0; step < len(live)+6; step++ {
		n, msgs, err := lg.Consume(q, 4)
		vrt.Assert(err == nil, "scan after recovery: no error")
		if err != nil {
			return
		}
		got = append(got, msgs...)
		if len(msgs) == 0 {
			break
		}
		q = n
	}
	vrt.Assert(lg.Close() == nil, "Close")
	applied := len(got) == len(rest)
	if done {
		vrt.Assert(applied, "a Delete that returned stays applied")
	}
	vrt.Assert(len(got) == len(rest) || len(got) == len(live), "a Delete in flight is applied completely or not at all")
	if applied {
		vrt.Reach("applied")
		recovered(l, dir, rest, nil, len(rest), l.Next, "after crash in Delete (applied)")
	} else if len(got) == len(live) {
		vrt.Reach("not-applied")
		recovered(l, dir, live, nil, len(live), l.Next, "after crash in Delete (not applied)")
	}
}

// Migrate: reopen with EagerVersionMigrate to the other version — crash anywhere.
func Migrate() {
	l := gen()
	live := l.Live()
	opts := l.Options()
	opts.Version.EagerVersionMigrate = true
	if vrt.Choose("tov1", 2) == 1 {
		opts.Version.NewSegmentsVersion = klevdb.V1
	}
	dir, crashed := vrt.Crashable(l.Dir, func() {
		lg, err := klevdb.Open(l.Dir, opts)
		vrt.Assert(err == nil, "Open with EagerVersionMigrate")
		if err != nil {
			vrt.Assume(false)
		}
		vrt.Assert(lg.Close() == nil, "Close")
	})
	if crashed {
		vrt.Reach("crashed")
		if vrt.Choose("retry", 2) == 1 {
			// the interrupted migration is run again (same options) before the log is used
			ro := opts
			ro.Recover = true
			lg, err := klevdb.Open(dir, ro)
			vrt.Assert(err == nil, "re-running the interrupted migration succeeds")
			if err != nil {
				return
			}
			vrt.Assert(lg.Close() == nil, "Close after the re-run migration")
			vrt.Reach("migration-retried")
		}
	} else {
		tapBound()
	}
	recovered(l, dir, live, nil, len(live), l.Next, "after crash in migrate")
}

// Recover: Recover itself on a head segment cut short — crash anywhere inside
// the recovery, then recover again (depth 2).
func Recover() {
	l := gen()
	head := &l.Segs[len(l.Segs)-1]
	vrt.Assume(len(head.Recs) > 0)
	total := len(head.LogBytes())
	L := vrt.IntRange("L", 8, total)
	vrt.Truncate(vrt.SegName(l.Dir, head.Base, ".log"), L)
	// records of the head that lie completely below the cut
	pos := len(kit.LogHeader(head.V1))
	keep := 0
	for i, r := range head.Recs {
		pos += kit.RecordSize(head.V1, len(r.Key), len(r.Val))
		if pos <= L {
			keep = i + 1
		}
	}
	var want []kit.Rec
	for i := range l.Segs[:len(l.Segs)-1] {
		want = append(want, l.Segs[i].Recs...)
	}
	want = append(want, head.Recs[:keep]...)
	dir, crashed := vrt.Crashable(l.Dir, func() {
		vrt.Assert(klevdb.Recover(l.Dir, l.Options()) == nil, "Recover")
	})
	if crashed {
		vrt.Reach("crashed")
	} else {
		tapBound()
	}
	next := head.Base
	if keep > 0 {
		next = head.Recs[keep-1].Off + 1
	}
	recovered(l, dir, want, nil, len(want), next, "after crash in Recover")
}

var _ = context.Background
