//go:build verif

package h_smoke

import (
	"github.com/klev-dev/klevdb"
	"github.com/klev-dev/klevdb/internal/zzverif/vrt"
)

func init() { vrt.Register("h_smoke.PublishConsume", PublishConsume) }

func PublishConsume() {
	dir := vrt.Dir("d")
	l, err := klevdb.Open(dir, klevdb.Options{KeyIndex: true, TimeIndex: true})
	vrt.Assert(err == nil, "open ok")
	if err != nil {
		return
	}
	m0 := klevdb.Message{Time: vrt.Time("t"), Key: vrt.Bytes("k", 1), Value: vrt.Bytes("v", 2)}
	m1 := klevdb.Message{Time: vrt.Time("t"), Key: vrt.Bytes("k", 1), Value: vrt.Bytes("v", 0)}
	next, err := l.Publish([]klevdb.Message{m0, m1})
	vrt.Assert(err == nil, "publish ok")
	vrt.Assert(next == 2, "next offset 2")
	n, msgs, err := l.Consume(klevdb.OffsetOldest, 10)
	vrt.Assert(err == nil, "consume ok")
	vrt.Assert(n == 2, "consume next 2")
	vrt.Assert(len(msgs) == 2, "two messages")
	if len(msgs) == 2 {
		vrt.Assert(msgs[0].Offset == 0 && msgs[1].Offset == 1, "offsets")
		vrt.Assert(vrt.BytesEqual(msgs[0].Key, m0.Key), "key0")
		vrt.Assert(vrt.BytesEqual(msgs[0].Value, m0.Value), "value0")
		vrt.Assert(msgs[1].Time.UnixMicro() == m1.Time.UnixMicro() || m1.Time.IsZero(), "time1")
	}
	g, err := l.GetByKey(m1.Key)
	vrt.Assert(err == nil, "getbykey ok")
	vrt.Assert(g.Offset == 1 || (g.Offset == 0 && false), "getbykey returns last with key")
	vrt.Assert(l.Close() == nil, "close ok")
	vrt.Reach("end")
}
