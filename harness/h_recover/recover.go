//go:build verif

// Package h_recover: Recover keeps exactly the valid prefix; Check accepts
// exactly the clean segments (C07). The head segment is built by the reference
// encoder and then damaged symbolically.
package h_recover

import (
	"github.com/klev-dev/klevdb"
	"github.com/klev-dev/klevdb/internal/zzverif/kit"
	"github.com/klev-dev/klevdb/internal/zzverif/vrt"
	"github.com/klev-dev/klevdb/pkg/index"
	"github.com/klev-dev/klevdb/pkg/segment"
)

func init() {
	vrt.Register("h_recover.Truncated", Truncated)
	vrt.Register("h_recover.ByteChanged", ByteChanged)
	vrt.Register("h_recover.IndexDamage", IndexDamage)
}

type fixture struct {
	l      *kit.Log
	seg    *kit.Seg
	s      segment.Segment
	params index.Params
	logB   []byte
	idxB   []byte
	ends   []int // ends[k] = end position of record k-1 (ends[0] = header size)
	v1     bool
}

func setup(withIndex bool) *fixture {
	v1 := vrt.Choose("v1", 2) == 1
	n := 1 + vrt.Choose("n", vrt.Bound("recs", 2))
	prof := vrt.Choose("prof", vrt.Bound("profs", 2))
	times, keys := vrt.Choose("times", 2) == 1, vrt.Choose("keys", 2) == 1
	sh := kit.Shape{Counts: []int{n}, V1: []bool{v1}, Profile: prof}
	l := kit.Gen(sh, times, keys)
	if times && vrt.Bound("anytimes", 0) == 0 {
		l.MonotoneTimes()
	}
	f := &fixture{l: l, seg: &l.Segs[0], v1: v1, params: index.Params{Times: times, Keys: keys}}
	f.seg.Index = withIndex
	f.logB = f.seg.LogBytes()
	f.idxB, _ = f.seg.IndexBytes(times, keys, 0)
	pos := len(kit.LogHeader(v1))
	f.ends = []int{pos}
	for _, r := range f.seg.Recs {
		pos += kit.RecordSize(v1, len(r.Key), len(r.Val))
		f.ends = append(f.ends, pos)
	}
	dir := l.Build("d")
	f.s = segment.New(dir, f.seg.Base, false)
	return f
}

// expectPrefix asserts the post-state of Recover: the log file is exactly the
// first k records and the index is absent or the index derived from them.
func (f *fixture) expectPrefix(k int, what string) {
	got, ok := vrt.ReadFile(f.s.Log)
	end := f.ends[k]
	vrt.Assert(ok, what+": log file exists after Recover")
	vrt.Assert(len(got) == end, what+": log file is cut to the longest prefix of valid records")
	if len(got) == end {
		vrt.Assert(vrt.BytesEqual(got, f.logB[:end]), what+": surviving bytes are unchanged")
	}
	ib, iok := vrt.ReadFile(f.s.Index)
	if iok {
		kseg := kit.Seg{Base: f.seg.Base, V1: f.v1, Recs: f.seg.Recs[:k]}
		want, _ := kseg.IndexBytes(f.params.Times, f.params.Keys, 0)
		// an index rewritten by Recover keeps the version of the index file it
		// replaces (a zero-length index counts as V1): both renderings are accepted
		want2, _ := kseg.IndexBytesVer(!f.v1, f.params.Times, f.params.Keys, 0)
		vrt.Assert(len(ib) == len(want) || len(ib) == len(want2), what+": index has one item per surviving record")
		if len(ib) == len(want) {
			vrt.Assert(vrt.BytesEqual(ib, want), what+": index equals the index derived from the surviving records")
		} else if len(ib) == len(want2) {
			vrt.Reach("index-rewritten-in-other-version")
			vrt.Assert(vrt.BytesEqual(ib, want2), what+": index equals the index derived from the surviving records")
		}
	}
	vrt.Assert(!vrt.Exists(f.s.Log+".recover"), what+": no temporary file left behind")
	vrt.Assert(f.s.Check(f.params) == nil, what+": Check succeeds after Recover")
}

// Truncated: the log file cut at any byte (0, or at/after the 8-byte header of a V2 file).
func Truncated() {
	f := setup(vrt.Choose("index", 2) == 1)
	total := len(f.logB)
	L := vrt.IntRange("L", 0, total)
	// the property's quantifier: length 0, or at/after the first 8 bytes (the V2
	// file header; for V1 the offset field of the first record, by which the
	// version is recognised)
	vrt.Assume(L == 0 || L >= 8)
	vrt.Truncate(f.s.Log, L)
	// k = number of complete records below L
	k := 0
	for i := 1; i < len(f.ends); i++ {
		if f.ends[i] <= L {
			k = i
		}
	}
	clean := L == f.ends[k] && (L > 0 || f.v1)
	if L == 0 && !f.v1 {
		// an empty file is an empty V1 segment: clean, nothing to recover
		clean = true
		vrt.Reach("cut-to-zero")
	}
	indexOK := !f.seg.Index || k == len(f.seg.Recs)
	cerr := f.s.Check(f.params)
	if clean && indexOK {
		vrt.Reach("clean")
		vrt.Assert(cerr == nil, "Check succeeds on an undamaged segment")
	} else {
		if !clean {
			if L-f.ends[k] < 28 {
				vrt.Reach("cut-inside-record-header")
			} else {
				vrt.Reach("cut-inside-record-data")
			}
		}
		vrt.Assert(cerr != nil, "Check fails: the log does not parse completely or the index does not match")
	}
	events := vrt.FSEvents()
	rerr := f.s.Recover(f.params)
	vrt.Assert(rerr == nil, "Recover succeeds")
	if rerr != nil {
		return
	}
	if clean && indexOK {
		// byte-for-byte no-op: only the temporary file is created and removed
		got, _ := vrt.ReadFile(f.s.Log)
		vrt.Assert(len(got) == L && vrt.BytesEqual(got, f.logB[:len(got)]), "Recover leaves an undamaged log file untouched")
		_ = events
	}
	if L == 0 && !f.v1 {
		return
	}
	f.expectPrefix(k, "truncated")
}

// ByteChanged: one byte after the file header replaced by a different value (V2).
func ByteChanged() {
	f := setup(vrt.Choose("index", 2) == 1)
	vrt.Assume(!f.v1)
	total := len(f.logB)
	// the changed byte lies in one field of one record (the region is a shape
	// variable, so that bytes outside it stay concrete-shaped terms)
	nrec := len(f.seg.Recs)
	region := vrt.Choose("region", 8*vrt.Bound("recs", 2))
	rk, rf := region/8, region%8
	vrt.Assume(rk < nrec)
	lo, hi := fieldRange(f.ends[rk], len(f.seg.Recs[rk].Key), len(f.seg.Recs[rk].Val), rf)
	vrt.Assume(lo < hi)
	p := vrt.IntRange("p", lo, hi-1)
	x := vrt.Byte("x")
	dmg := make([]byte, total)
	for i := range dmg {
		if i >= lo && i < hi {
			dmg[i] = vrt.IteByte(p == i, x, f.logB[i])
		} else {
			dmg[i] = f.logB[i]
		}
	}
	vrt.Assume(vrt.SelectByte(f.logB[lo:hi], p-lo) != x)
	vrt.WriteFile(f.s.Log, dmg)
	// the damaged record
	k := 0
	for i := 1; i < len(f.ends); i++ {
		if f.ends[i] <= p {
			k = i
		}
	}
	// CRC: the stored and the recomputed checksum of the damaged record differ
	// (an accidental collision of CRC32C, probability 2^-32, is outside the claim)
	kit.AssumeRecordInvalid(dmg, f.ends[k], f.logB)
	vrt.Reach("byte-changed")
	vrt.Assert(f.s.Check(f.params) != nil, "Check fails on a segment with a changed byte")
	rerr := f.s.Recover(f.params)
	vrt.Assert(rerr == nil, "Recover succeeds")
	if rerr != nil {
		return
	}
	f.expectPrefix(k, "byte changed")
	// keeps succeeding after further appends
	if vrt.Bound("append_after", 1) == 1 {
		lg, err := klevdb.Open(f.l.Dir, klevdb.Options{TimeIndex: f.params.Times, KeyIndex: f.params.Keys, Check: true})
		vrt.Assert(err == nil, "Open with Check succeeds after Recover")
		if err != nil {
			return
		}
		_, err = lg.Publish([]klevdb.Message{{Key: vrt.Bytes("nk", 1), Value: vrt.Bytes("nv", 1)}})
		vrt.Assert(err == nil, "Publish after Recover")
		vrt.Assert(lg.Close() == nil, "Close")
		vrt.Assert(klevdb.Check(f.l.Dir, klevdb.Options{TimeIndex: f.params.Times, KeyIndex: f.params.Keys}) == nil, "Check keeps succeeding after further appends")
	}
}

// fieldRange returns the byte range of field f of the V2 record starting at s:
// 0 crc, 1 offset, 2 time, 3 key length, 4 value length, 5 key, 6 value, 7 trailer.
func fieldRange(s, kl, vl, f int) (int, int) {
	switch f {
	case 0:
		return s, s + 4
	case 1:
		return s + 4, s + 12
	case 2:
		return s + 12, s + 20
	case 3:
		return s + 20, s + 24
	case 4:
		return s + 24, s + 28
	case 5:
		return s + 28, s + 28 + kl
	case 6:
		return s + 28 + kl, s + 28 + kl + vl
	default:
		return s + 28 + kl + vl, s + 36 + kl + vl
	}
}

// IndexDamage: clean log, damaged index (truncated / byte changed / extra item).
func IndexDamage() {
	f := setup(true)
	kind := vrt.Choose("kind", 3)
	total := len(f.idxB)
	hdr := len(kit.IndexHeader(f.v1, f.params.Times, f.params.Keys))
	damaged := true
	switch kind {
	case 0: // truncated at any length
		L := vrt.IntRange("L", 0, total)
		vrt.Truncate(f.s.Index, L)
		if L == total {
			damaged = false
		}
		if L == 0 && len(f.seg.Recs) == 0 {
			damaged = false
		}
		vrt.Reach("index-truncated")
	case 1: // one byte changed
		p := vrt.IntRange("p", 0, total-1)
		x := vrt.Byte("x")
		dmg := make([]byte, total)
		for i := range dmg {
			dmg[i] = vrt.IteByte(p == i, x, f.idxB[i])
		}
		vrt.Assume(vrt.SelectByte(f.idxB, p) != x)
		vrt.WriteFile(f.s.Index, dmg)
		vrt.Reach("index-byte-changed")
	default: // an extra symbolic item
		extra := vrt.Bytes("extra", kit.ItemSize(f.params.Times, f.params.Keys))
		vrt.WriteFile(f.s.Index, append(append([]byte{}, f.idxB...), extra...))
		vrt.Reach("index-extra-item")
	}
	_ = hdr
	cerr := f.s.Check(f.params)
	vrt.Assert((cerr == nil) == !damaged, "Check succeeds iff the index equals the index derived from the log")
	rerr := f.s.Recover(f.params)
	vrt.Assert(rerr == nil, "Recover succeeds on a damaged index")
	if rerr != nil {
		return
	}
	got, _ := vrt.ReadFile(f.s.Log)
	vrt.Assert(len(got) == len(f.logB) && vrt.BytesEqual(got, f.logB), "Recover leaves the clean log file untouched")
	f.expectPrefix(len(f.seg.Recs), "index damage")
}
