//go:build verif

// Package replay runs one harness natively against the real build with the
// inputs of a solver model (counterexample or reachability witness).
package replay

import (
	"fmt"
	"os"
	"strings"
	"testing"

	_ "github.com/klev-dev/klevdb/internal/zzverif/h_index"
	_ "github.com/klev-dev/klevdb/internal/zzverif/h_smoke"
	_ "github.com/klev-dev/klevdb/internal/zzverif/h_log"
	_ "github.com/klev-dev/klevdb/internal/zzverif/h_codec"
	_ "github.com/klev-dev/klevdb/internal/zzverif/h_recover"
	_ "github.com/klev-dev/klevdb/internal/zzverif/h_step"
	_ "github.com/klev-dev/klevdb/internal/zzverif/h_damage"
	_ "github.com/klev-dev/klevdb/internal/zzverif/h_helpers"
	_ "github.com/klev-dev/klevdb/internal/zzverif/h_locks"
	_ "github.com/klev-dev/klevdb/internal/zzverif/h_backup"
	_ "github.com/klev-dev/klevdb/internal/zzverif/h_crash"
	_ "github.com/klev-dev/klevdb/internal/zzverif/h_sync"
	_ "github.com/klev-dev/klevdb/internal/zzverif/h_conc"
	"github.com/klev-dev/klevdb/internal/zzverif/vrt"
)

func TestVerifReplay(t *testing.T) {
	path := os.Getenv("VERIF_REPLAY")
	if path == "" {
		t.Skip("VERIF_REPLAY not set")
	}
	st, harness, err := vrt.Load(path, t.TempDir())
	if err != nil {
		t.Fatal(err)
	}
	f := vrt.Lookup(harness)
	if f == nil {
		t.Fatalf("unknown harness %q", harness)
	}
	st.Run(f)
	fmt.Printf("REPLAY-RESULT harness=%s infeasible=%v failed=%d\n", harness, st.Infeasible, len(st.Failed))
	for _, l := range st.Failed {
		fmt.Printf("REPLAY-FAILED %s\n", l)
	}
	for _, l := range st.Reached {
		fmt.Printf("REPLAY-REACHED %s\n", l)
	}
	for _, l := range st.Obs {
		fmt.Printf("REPLAY-OBS %s\n", l)
	}
	if len(st.Failed) > 0 {
		t.Errorf("assertions failed: %s", strings.Join(st.Failed, "; "))
	}
}
