//go:build verif

// Package h_helpers: trim (C15) and compaction (C16) helpers running against
// the real log opened on an arbitrary well-formed directory.
package h_helpers

import (
	"context"
	"time"

	"github.com/klev-dev/klevdb"
	"github.com/klev-dev/klevdb/internal/zzverif/kit"
	"github.com/klev-dev/klevdb/internal/zzverif/vrt"
)

func init() {
	vrt.Register("h_helpers.TrimOffset", TrimOffset)
	vrt.Register("h_helpers.TrimCount", TrimCount)
	vrt.Register("h_helpers.TrimSize", TrimSize)
	vrt.Register("h_helpers.TrimAge", TrimAge)
	vrt.Register("h_helpers.Updates", Updates)
	vrt.Register("h_helpers.Deletes", Deletes)
}

func noBackoff(context.Context) error { return nil }

type env struct {
	l    *kit.Log
	lg   klevdb.Log
	live []kit.Rec
}

func setup(times, keys bool, monotone bool, singleVersion bool) *env {
	sh := kit.ChooseShape()
	if singleVersion {
		for _, v := range sh.V1 {
			vrt.Assume(!v)
		}
	}
	l := kit.Gen(sh, times, keys)
	if monotone {
		l.MonotoneTimes()
	}
	if n := vrt.Bound("realkeys", 0); n > 0 {
		l.UseRealKeys(n)
	}
	l.Build("d")
	lg, err := klevdb.Open(l.Dir, l.Options())
	vrt.Assert(err == nil, "Open succeeds")
	if err != nil {
		vrt.Assume(false)
	}
	return &env{l: l, lg: lg, live: l.Live()}
}

// isPrefix asserts that the set is exactly the first k live offsets and returns k.
func (e *env) isPrefix(set map[int64]struct{}, what string) int {
	k := len(set)
	vrt.Assert(k <= len(e.live), what+": selects only live messages")
	if k > len(e.live) {
		return 0
	}
	for i := 0; i < k; i++ {
		_, ok := set[e.live[i].Off]
		vrt.Assert(ok, what+": selects a prefix of the live sequence and nothing else")
	}
	return k
}

// after asserts that exactly the first k live messages are gone and every other
// message is untouched.
func (e *env) after(k int, what string) {
	kit.Observe(e.lg, e.live[k:], e.l.Next, what)
	vrt.Assert(e.lg.Close() == nil, what+": Close")
	d := kit.DecodeDir(e.l.Dir, e.l.Times, e.l.Keys, false, what)
	kit.SameLog(d, e.live[k:], e.l.Next, what)
}

// TrimOffset: FindByOffset / TrimByOffsetMulti.
func TrimOffset() {
	e := setup(false, false, false, false)
	before := vrt.Int64("before")
	set, err := klevdb.FindByOffset(context.Background(), e.lg, before)
	vrt.Assert(err == nil, "FindByOffset succeeds")
	k := e.isPrefix(set, "FindByOffset")
	want := 0
	switch {
	case before == klevdb.OffsetNewest:
		want = len(e.live)
		vrt.Reach("newest")
	case before < 0:
		want = 0
		vrt.Reach("oldest-or-negative")
	default:
		want = kit.LowerBound(e.live, before)
		if want > 0 && want < len(e.live) {
			vrt.Reach("inside")
		}
	}
	vrt.Assert(k == want, "FindByOffset selects exactly the live offsets below the bound")
	deleted, _, err := klevdb.TrimByOffsetMulti(context.Background(), e.lg, before, noBackoff)
	vrt.Assert(err == nil, "TrimByOffsetMulti succeeds")
	vrt.Assert(len(deleted) == want, "TrimByOffsetMulti removes exactly the selected prefix")
	e.after(want, "after TrimByOffsetMulti")
}

// TrimCount: FindByCount / TrimByCountMulti.
func TrimCount() {
	e := setup(false, false, false, false)
	max := vrt.Int("max")
	vrt.Assume(max >= 0) // a negative count is outside the statement
	set, err := klevdb.FindByCount(context.Background(), e.lg, max)
	vrt.Assert(err == nil, "FindByCount succeeds")
	k := e.isPrefix(set, "FindByCount")
	n := len(e.live)
	want := 0
	if n > max {
		want = n - max
		vrt.Reach("over")
	} else {
		vrt.Reach("under")
	}
	vrt.Assert(k == want, "FindByCount selects the oldest messages in excess of max")
	deleted, _, err := klevdb.TrimByCountMulti(context.Background(), e.lg, max, noBackoff)
	vrt.Assert(err == nil, "TrimByCountMulti succeeds")
	vrt.Assert(len(deleted) == want, "TrimByCountMulti leaves exactly min(count, max) messages")
	e.after(want, "after TrimByCountMulti")
}

// TrimSize: FindBySize / TrimBySizeMulti on single-version (V2) logs.
func TrimSize() {
	e := setup(true, true, false, true)
	sz := vrt.Int64("sz")
	st, err := e.lg.Stat()
	vrt.Assert(err == nil, "Stat")
	set, err := klevdb.FindBySize(context.Background(), e.lg, sz)
	vrt.Assert(err == nil, "FindBySize succeeds")
	k := e.isPrefix(set, "FindBySize")
	total := st.Size
	want := 0
	if total >= sz {
		for want < len(e.live) && total >= sz {
			r := e.live[want]
			total -= e.lg.Size(klevdb.Message{Key: r.Key, Value: r.Val})
			want++
		}
		vrt.Reach("over")
	} else {
		vrt.Reach("under")
	}
	vrt.Assert(k == want, "FindBySize selects the smallest prefix whose estimated removal brings the size below the target (or everything)")
	deleted, _, err := klevdb.TrimBySizeMulti(context.Background(), e.lg, sz, noBackoff)
	vrt.Assert(err == nil, "TrimBySizeMulti succeeds")
	vrt.Assert(len(deleted) == want, "TrimBySizeMulti removes exactly the selected prefix")
	st2, err := e.lg.Stat()
	vrt.Assert(err == nil, "Stat after trim")
	vrt.Assert(st2.Size < sz || st2.Messages == 0, "after TrimBySizeMulti the size is below the target unless the log is empty")
	e.after(want, "after TrimBySizeMulti")
}

// TrimAge: FindByAge / TrimByAgeMulti.
func TrimAge() {
	times := vrt.Choose("times", 2) == 1
	mono := vrt.Choose("mono", 2) == 1
	e := setup(times, false, mono, false)
	bq := vrt.Int64("before")
	before := time.UnixMicro(bq)
	set, err := klevdb.FindByAge(context.Background(), e.lg, before)
	vrt.Assert(err == nil, "FindByAge succeeds")
	k := e.isPrefix(set, "FindByAge")
	for i := 0; i < k; i++ {
		vrt.Assert(e.live[i].Us <= bq, "FindByAge selects no message newer than the given time")
	}
	if mono {
		for i := k; i < len(e.live); i++ {
			vrt.Assert(e.live[i].Us >= bq, "with non-decreasing times no older message is left")
		}
		vrt.Reach("monotone")
	}
	if k > 0 && k < len(e.live) {
		vrt.Reach("inside")
	}
	deleted, _, err := klevdb.TrimByAgeMulti(context.Background(), e.lg, before, noBackoff)
	vrt.Assert(err == nil, "TrimByAgeMulti succeeds")
	vrt.Assert(len(deleted) == k, "TrimByAgeMulti removes exactly the selected prefix")
	e.after(k, "after TrimByAgeMulti")
}
