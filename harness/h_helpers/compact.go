//go:build verif

package h_helpers

import (
	"context"
	"time"

	"github.com/klev-dev/klevdb"
	"github.com/klev-dev/klevdb/internal/zzverif/kit"
	"github.com/klev-dev/klevdb/internal/zzverif/vrt"
)

// latestOf: index of the last live message with the key of live[i].
func latestOf(live []kit.Rec, key []byte) int {
	last := -1
	for i := range live {
		if vrt.BytesEqual(live[i].Key, key) {
			last = i
		}
	}
	return last
}

// sameLatest: for every key of the old log, the value of its last live message
// (a message without value meaning absent) is the same in the new log.
func sameLatest(old, cur []kit.Rec, what string) {
	for i := range old {
		lo := latestOf(old, old[i].Key)
		lc := latestOf(cur, old[i].Key)
		oldAbsent := len(old[lo].Val) == 0
		if lc < 0 {
			vrt.Assert(oldAbsent, what+": a key disappears only if its latest message had no value")
			continue
		}
		curAbsent := len(cur[lc].Val) == 0
		vrt.Assert(oldAbsent == curAbsent, what+": the latest value of a key does not appear or disappear")
		if !oldAbsent && !curAbsent {
			vrt.Assert(vrt.BytesEqual(old[lo].Val, cur[lc].Val), what+": the latest value of every key is unchanged")
		}
	}
}

func remaining(live []kit.Rec, set map[int64]struct{}) []kit.Rec {
	var out []kit.Rec
	for _, r := range live {
		if _, ok := set[r.Off]; !ok {
			out = append(out, r)
		}
	}
	return out
}

// Updates: FindUpdates / CompactUpdatesMulti.
func Updates() {
	mono := vrt.Choose("mono", 2) == 1
	e := setup(true, true, mono, false)
	cq := vrt.Int64("cut")
	cut := time.UnixMicro(cq)
	set, err := klevdb.FindUpdates(context.Background(), e.lg, cut)
	vrt.Assert(err == nil, "FindUpdates succeeds")
	for i, r := range e.live {
		if _, ok := set[r.Off]; ok {
			vrt.Reach("update-found")
			vrt.Assert(r.Us <= cq, "FindUpdates selects only messages not newer than the cut-off")
			vrt.Assert(latestOf(e.live, r.Key) > i, "FindUpdates selects only messages with a later message of the same key")
		}
	}
	vrt.Assert(len(set) <= len(e.live), "FindUpdates selects live offsets only")
	n := 0
	for _, r := range e.live {
		if _, ok := set[r.Off]; ok {
			n++
		}
	}
	vrt.Assert(n == len(set), "FindUpdates selects live offsets only (no foreign offset)")
	rest := remaining(e.live, set)
	if mono {
		// at most one message per key among those not newer than the cut-off survives
		for i := range rest {
			for j := i + 1; j < len(rest); j++ {
				vrt.Assert(!vrt.And(vrt.BytesEqual(rest[i].Key, rest[j].Key), rest[i].Us <= cq, rest[j].Us <= cq),
					"with non-decreasing times at most one message per key not newer than the cut-off is left")
			}
		}
	}
	sameLatest(e.live, rest, "FindUpdates")
	delOffs, _, err := klevdb.CompactUpdatesMultiOffsets(context.Background(), e.lg, cut, noBackoff)
	vrt.Assert(err == nil, "CompactUpdatesMultiOffsets succeeds")
	vrt.Assert(len(delOffs) == len(set), "CompactUpdatesMultiOffsets removes exactly the selected messages")
	kit.Observe(e.lg, rest, e.l.Next, "after CompactUpdates")
	// a second round changes nothing more than the rules allow
	set2, err := klevdb.FindUpdates(context.Background(), e.lg, cut)
	vrt.Assert(err == nil, "FindUpdates (second round) succeeds")
	sameLatest(e.live, remaining(rest, set2), "second round of FindUpdates")
	vrt.Assert(e.lg.Close() == nil, "Close")
}

// Deletes: FindDeletes / CompactDeletesMulti, alone and after CompactUpdates.
func Deletes() {
	mono := vrt.Choose("mono", 2) == 1
	e := setup(true, true, mono, false)
	cq := vrt.Int64("cut")
	cut := time.UnixMicro(cq)
	set, err := klevdb.FindDeletes(context.Background(), e.lg, cut)
	vrt.Assert(err == nil, "FindDeletes succeeds")
	n := 0
	for i, r := range e.live {
		if _, ok := set[r.Off]; ok {
			n++
			vrt.Reach("delete-found")
			vrt.Assert(len(r.Val) == 0, "FindDeletes selects only value-less messages")
			vrt.Assert(r.Us <= cq, "FindDeletes selects only messages not newer than the cut-off")
			first := true
			for j := 0; j < i; j++ {
				if vrt.BytesEqual(e.live[j].Key, r.Key) {
					first = false
				}
			}
			vrt.Assert(first, "FindDeletes selects only the oldest live message of its key")
		}
	}
	vrt.Assert(n == len(set), "FindDeletes selects live offsets only")
	rest := remaining(e.live, set)
	sameLatest(e.live, rest, "FindDeletes")
	delOffs, _, err := klevdb.CompactDeletesMultiOffsets(context.Background(), e.lg, cut, noBackoff)
	vrt.Assert(err == nil, "CompactDeletesMultiOffsets succeeds")
	vrt.Assert(len(delOffs) == len(set), "CompactDeletesMultiOffsets removes exactly the selected messages")
	kit.Observe(e.lg, rest, e.l.Next, "after CompactDeletes")
	// alternating application: updates after deletes keeps the latest values
	set2, err := klevdb.FindUpdates(context.Background(), e.lg, cut)
	vrt.Assert(err == nil, "FindUpdates after CompactDeletes succeeds")
	sameLatest(e.live, remaining(rest, set2), "CompactDeletes then CompactUpdates")
	vrt.Assert(e.lg.Close() == nil, "Close")
}
