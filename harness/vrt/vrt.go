//go:build verif

// Package vrt is the nondeterminism / specification API of the verification
// harnesses. Inside the symbolic engine (gosym) every function of this package
// is intercepted: inputs become SMT variables, Assume extends the path
// condition, Assert emits a proof obligation. Compiled natively (this file) the
// same functions read a counterexample / witness model (VERIF_REPLAY=<json>)
// and evaluate the harness concretely against the real build.
package vrt

import (
	"bytes"
	"encoding/json"
	"errors"
	"fmt"
	"hash/crc32"
	"hash/fnv"
	"os"
	"path/filepath"
	"runtime"
	"sort"
	"strings"
	"sync"
	"time"
)

type inputVal struct {
	Name  string `json:"name"`
	Bits  int    `json:"bits"`
	Value uint64 `json:"value"`
}

type replayFile struct {
	Property string            `json:"property"`
	Harness  string            `json:"harness"`
	Bounds   map[string]int    `json:"bounds"`
	Inputs   []inputVal        `json:"inputs"`
	Known    map[string]string `json:"known"`
	Label    string            `json:"label"`
	Extra    map[string]string `json:"extra"`
}

// State of one native replay.
type State struct {
	vals     map[string]uint64
	seen     map[string]int
	bounds   map[string]int
	known    map[string]string
	Failed   []string
	Reached  []string
	Obs      []string
	dir      string
	tmpRoot  string
	Infeasible bool
}

var cur *State

var registry = map[string]func(){}

// Register makes a harness function available to the native replay test.
func Register(name string, f func()) { registry[name] = f }

// Lookup returns a registered harness.
func Lookup(name string) func() { return registry[name] }

type infeasible struct{}

// Load prepares a native replay from the file named by VERIF_REPLAY.
func Load(path string, tmp string) (*State, string, error) {
	data, err := os.ReadFile(path)
	if err != nil {
		return nil, "", err
	}
	var rf replayFile
	if err := json.Unmarshal(data, &rf); err != nil {
		return nil, "", err
	}
	s := &State{vals: map[string]uint64{}, seen: map[string]int{}, bounds: rf.Bounds, known: rf.Known, tmpRoot: tmp}
	for _, in := range rf.Inputs {
		s.vals[in.Name] = in.Value
	}
	loadCrashPlan(rf.Extra)
	cur = s
	return s, rf.Harness, nil
}

// Run executes a harness natively, converting Assume failures into a flag.
func (s *State) Run(f func()) {
	defer func() {
		if r := recover(); r != nil {
			if _, ok := r.(infeasible); ok {
				s.Infeasible = true
				return
			}
			s.Failed = append(s.Failed, fmt.Sprintf("panic: %v", r))
		}
	}()
	f()
}

func sanitize(s string) string {
	var sb strings.Builder
	for _, c := range s {
		if c >= 'a' && c <= 'z' || c >= 'A' && c <= 'Z' || c >= '0' && c <= '9' || c == '_' || c == '.' {
			sb.WriteRune(c)
		} else {
			sb.WriteRune('_')
		}
	}
	return sb.String()
}

func next(name string) uint64 {
	if cur == nil {
		panic("vrt: no replay loaded (harnesses run under gosym or with VERIF_REPLAY)")
	}
	k := cur.seen[name]
	cur.seen[name] = k + 1
	return cur.vals[fmt.Sprintf("%s!%d", sanitize(name), k)]
}

func Int64(name string) int64   { return int64(next(name)) }
func Int(name string) int       { return int(int64(next(name))) }
func Uint64(name string) uint64 { return next(name) }
func Int32(name string) int32   { return int32(uint32(next(name))) }
func Byte(name string) byte     { return byte(next(name)) }
func Bool(name string) bool     { return next(name) != 0 }

// IntRange returns a symbolic int constrained to [lo, hi].
func IntRange(name string, lo, hi int) int {
	v := Int(name)
	Assume(lo <= v && v <= hi)
	return v
}

// Choose returns a value in [0, n) that the engine case-splits on (shape variable).
func Choose(name string, n int) int {
	v := Int(name)
	Assume(0 <= v && v < n)
	return v
}

// Bytes returns n symbolic bytes.
func Bytes(name string, n int) []byte {
	b := make([]byte, n)
	for i := range b {
		b[i] = Byte(name)
	}
	return b
}

// Time returns the instant with the given symbolic microsecond count.
func Time(name string) time.Time { return time.UnixMicro(Int64(name)).UTC() }

// Bound returns a named bound of the run (tier dependent), def if unset.
func Bound(name string, def int) int {
	if cur != nil && cur.bounds != nil {
		if v, ok := cur.bounds[name]; ok {
			return v
		}
	}
	return def
}

func Assume(c bool) {
	if !c {
		panic(infeasible{})
	}
}

func Assert(c bool, label string) {
	if !c {
		cur.Failed = append(cur.Failed, label)
	}
}

func Reach(label string) { cur.Reached = append(cur.Reached, label) }

// Observe records a value for translation validation (engine prediction vs native run).
func Observe(name string, v int64) { cur.Obs = append(cur.Obs, fmt.Sprintf("%s=%d", name, v)) }
func ObserveBool(name string, v bool) {
	x := 0
	if v {
		x = 1
	}
	cur.Obs = append(cur.Obs, fmt.Sprintf("%s=%d", name, x))
}

// Known marks the case `c` as the listed known finding `id`: violations of the
// labelled assertions on such paths are reported as KNOWN-FINDING.
func Known(id string, c bool) bool {
	return c && cur.known[id] == "known"
}

// Branch-free connectives (one term in the engine instead of a fork per operand).
func And(a ...bool) bool {
	for _, x := range a {
		if !x {
			return false
		}
	}
	return true
}
func Or(a ...bool) bool {
	for _, x := range a {
		if x {
			return true
		}
	}
	return false
}
func Not(a bool) bool        { return !a }
func Implies(a, b bool) bool { return !a || b }
func Iff(a, b bool) bool     { return a == b }
func IteInt64(c bool, a, b int64) int64 {
	if c {
		return a
	}
	return b
}
func BytesEqual(a, b []byte) bool { return bytes.Equal(a, b) }
func IteByte(c bool, a, b byte) byte {
	if c {
		return a
	}
	return b
}

// SelectByte returns xs[i] (an ite-chain in the engine; i must be in range).
func SelectByte(xs []byte, i int) byte { return xs[i] }

// SelectInt64 returns xs[i] (an ite-chain in the engine; i must be in range).
func SelectInt64(xs []int64, i int) int64 { return xs[i] }

// ErrIs is errors.Is (decided by the interpreter on the concrete error structure).
func ErrIs(err, target error) bool { return errors.Is(err, target) }

// CRC32C / FNV64a: the same (uninterpreted) functions the code under test uses.
func CRC32C(b []byte) uint32 { return crc32.Checksum(b, crc32.MakeTable(crc32.Castagnoli)) }
func FNV64a(b []byte) uint64 {
	h := fnv.New64a()
	h.Write(b)
	return h.Sum64()
}

// NoCRCCollision assumes that two byte strings that differ have different CRC32C
// (collisions of the real function, probability 2^-32 per pair, are outside the claim).
func NoCRCCollision(a, b []byte) {
	if !bytes.Equal(a, b) {
		Assume(CRC32C(a) != CRC32C(b))
	}
}

// ---------------------------------------------------------------- files

// Dir returns a fresh empty directory (symbolic file system in the engine).
func Dir(name string) string {
	d := filepath.Join(cur.tmpRoot, name)
	if err := os.MkdirAll(d, 0700); err != nil {
		panic(err)
	}
	return d
}

func WriteFile(path string, data []byte) {
	if err := os.WriteFile(path, data, 0600); err != nil {
		panic(err)
	}
}

// ReadFile returns the content and whether the file exists.
func ReadFile(path string) ([]byte, bool) {
	b, err := os.ReadFile(path)
	if err != nil {
		return nil, false
	}
	return b, true
}

func RemoveFile(path string) { _ = os.Remove(path) }

func Exists(path string) bool {
	_, err := os.Stat(path)
	return err == nil
}

// List returns the sorted file names of a directory.
func List(dir string) []string {
	es, err := os.ReadDir(dir)
	if err != nil {
		return nil
	}
	var out []string
	for _, e := range es {
		out = append(out, e.Name())
	}
	sort.Strings(out)
	return out
}

// Truncate cuts a file to n bytes (n <= current length).
func Truncate(path string, n int) {
	if err := os.Truncate(path, int64(n)); err != nil {
		panic(err)
	}
}

// SegName is the file name of a segment file ("%020d" + ext).
func SegName(dir string, offset int64, ext string) string {
	return filepath.Join(dir, fmt.Sprintf("%020d%s", offset, ext))
}

// SegOffsets returns the sorted base offsets of the "*.log" files of a directory.
func SegOffsets(dir string) []int64 {
	var out []int64
	for _, n := range List(dir) {
		if strings.HasSuffix(n, ".log") {
			var v int64
			if _, err := fmt.Sscanf(strings.TrimSuffix(n, ".log"), "%d", &v); err == nil && len(n) == 24 {
				out = append(out, v)
			}
		}
	}
	sort.Slice(out, func(i, j int) bool { return out[i] < out[j] })
	return out
}

// Crashable runs the workload f; in the engine the process may die at any
// file-system mutation inside f (see engine/exec/crash.go). It returns the
// directory to recover from and whether a crash happened. Natively f runs to
// completion unless the replay file names a crash point (instrumented build).
func Crashable(dir string, f func()) (string, bool) {
	return crashableNative(dir, f)
}

// Snap is a snapshot of a directory (names, sizes, bytes of all files except .lock).
type Snap struct {
	names []string
	data  [][]byte
}

// Snapshot captures a directory without forcing symbolic file sizes to be concrete.
func Snapshot(dir string) *Snap {
	s := &Snap{}
	for _, n := range List(dir) {
		if n == ".lock" {
			continue
		}
		b, _ := ReadFile(filepath.Join(dir, n))
		s.names = append(s.names, n)
		s.data = append(s.data, b)
	}
	return s
}

// SameSnapshot reports whether two snapshots hold the same files with the same bytes.
func SameSnapshot(a, b *Snap) bool {
	if len(a.names) != len(b.names) {
		return false
	}
	for i := range a.names {
		if a.names[i] != b.names[i] || !bytes.Equal(a.data[i], b.data[i]) {
			return false
		}
	}
	return true
}

// Go starts a harness goroutine (under the schedule variable in the engine).
func Go(role string, f func()) {
	goWG.Add(1)
	go func() {
		defer goWG.Done()
		f()
	}()
}

var goWG sync.WaitGroup

// Atomic runs f without a scheduling point inside (harness ghost updates).
func Atomic(f func()) {
	atomicMu.Lock()
	defer atomicMu.Unlock()
	f()
}

var atomicMu sync.Mutex

// WaitQuiescent returns when every goroutine started with Go has finished or is
// blocked for good (engine: no goroutine can make progress; natively: a grace period).
func WaitQuiescent() {
	ch := make(chan struct{})
	go func() { goWG.Wait(); close(ch) }()
	select {
	case <-ch:
	case <-time.After(300 * time.Millisecond):
	}
}

// AllocMark / AllocOK: natively, the bytes allocated since the mark must not
// exceed limit (runtime.MemStats.TotalAlloc). In the engine every make() with a
// symbolic size is checked against the max_alloc bound where it happens, under
// the same assertion label; AllocOK is then constantly true.
func AllocMark() uint64 {
	var ms runtime.MemStats
	runtime.ReadMemStats(&ms)
	return ms.TotalAlloc
}

func AllocOK(mark uint64, limit uint64) bool {
	var ms runtime.MemStats
	runtime.ReadMemStats(&ms)
	return ms.TotalAlloc-mark <= limit
}

// CrashTaps returns the number of crash points seen so far (engine only).
func CrashTaps() int { return crashTaps }

var crashTaps int

// FSEvents returns the number of file-system mutations performed so far
// (engine only; natively 0).
func FSEvents() int { return 0 }

// ---------------------------------------------------------------- native crash replay

type crashSignal struct{}

type crashPlanT struct {
	mode  int
	tap   int   // -1: no crash
	torn  int64 // -1: not torn
	cuts  map[string]int64
	armed bool
	count int
	dir   string
	// torn append in progress
	pendingTorn bool
	sizes       map[string]int64
	crashCh     chan struct{}
}

var plan = &crashPlanT{tap: -1, torn: -1}

func loadCrashPlan(extra map[string]string) {
	plan = &crashPlanT{tap: -1, torn: -1}
	if extra == nil {
		return
	}
	fmt.Sscan(extra["crash_mode"], &plan.mode)
	if v, ok := extra["crash_tap"]; ok {
		fmt.Sscan(v, &plan.tap)
	}
	if v, ok := extra["crash_torn"]; ok {
		fmt.Sscan(v, &plan.torn)
	}
	if v, ok := extra["crash_cuts"]; ok {
		_ = json.Unmarshal([]byte(v), &plan.cuts)
	}
}

func dirSizes(dir string) map[string]int64 {
	m := map[string]int64{}
	es, _ := os.ReadDir(dir)
	for _, e := range es {
		if fi, err := e.Info(); err == nil {
			m[e.Name()] = fi.Size()
		}
	}
	return m
}

// applyTorn keeps only the first plan.torn bytes of the append that just happened.
func applyTorn() {
	after := dirSizes(plan.dir)
	for name, sz := range after {
		if before := plan.sizes[name]; sz > before {
			_ = os.Truncate(filepath.Join(plan.dir, name), before+plan.torn)
			return
		}
	}
}

// Tap is called by instrumented builds before (post=false) and after (post=true)
// every statement of klevdb that performs a file-system mutation.
func Tap(post bool) {
	p := plan
	if !p.armed {
		return
	}
	if p.pendingTorn {
		// the torn call has returned (post tap, or the next call if there was none)
		p.armed = false
		applyTorn()
		p.pendingTorn = false
		die(p)
	}
	if post {
		return
	}
	idx := p.count
	p.count++
	crashTaps = p.count
	if idx != p.tap {
		return
	}
	if p.torn > 0 {
		p.sizes = dirSizes(p.dir)
		p.pendingTorn = true
		return
	}
	p.armed = false
	die(p)
}

// die stops the workload goroutine at the crash point, for good.
func die(p *crashPlanT) {
	p.crashCh <- struct{}{}
	select {}
}

var crashableNative = func(dir string, f func()) (string, bool) {
	p := plan
	p.dir = dir
	p.armed = true
	p.count = 0
	crashed := false
	// The workload runs on its own goroutine. At the crash point that goroutine
	// simply stops for good (no unwinding, so no deferred clean-up of klevdb runs,
	// exactly as when a process is killed); the harness continues here.
	p.crashCh = make(chan struct{})
	done := make(chan any, 1)
	go func() {
		defer func() { done <- recover() }()
		f()
	}()
	select {
	case r := <-done:
		p.armed = false
		if r != nil {
			panic(r)
		}
	case <-p.crashCh:
		p.armed = false
		crashed = true
	}
	if p.pendingTorn {
		// the workload ended before another tap: finish the torn append now
		p.pendingTorn = false
		applyTorn()
		crashed = true
	}
	if !crashed && len(p.cuts) == 0 {
		return dir, false
	}
	// the crash image: a copy of the directory (open handles and the lock of the
	// dead process stay behind), unsynced tails cut as the model says
	img := dir + ".img"
	_ = os.MkdirAll(img, 0700)
	es, _ := os.ReadDir(dir)
	for _, e := range es {
		if e.Name() == ".lock" || e.IsDir() {
			continue
		}
		b, err := os.ReadFile(filepath.Join(dir, e.Name()))
		if err != nil {
			continue
		}
		if n, ok := p.cuts[filepath.Base(e.Name())]; ok && n >= 0 && n < int64(len(b)) {
			b = b[:n]
		}
		_ = os.WriteFile(filepath.Join(img, e.Name()), b, 0600)
	}
	return img, crashed
}
