//go:build verif

// Package h_codec: record and index formats (C13) — the real writers/readers
// against the reference codec of the documented layouts.
package h_codec

import (
	"path/filepath"
	"time"

	"github.com/klev-dev/klevdb/internal/zzverif/kit"
	"github.com/klev-dev/klevdb/internal/zzverif/vrt"
	"github.com/klev-dev/klevdb/pkg/index"
	"github.com/klev-dev/klevdb/pkg/message"
)

func init() {
	vrt.Register("h_codec.RoundTrip", RoundTrip)
	vrt.Register("h_codec.Cross", Cross)
	vrt.Register("h_codec.IndexFormat", IndexFormat)
}

var lengths = []int{0, 1, 2, 3, 7, 8, 9, 255, 256, 300}

func pickLen(name string) int {
	if vrt.Bound("all_"+name, 0) == 1 {
		return vrt.Choose(name, 301)
	}
	return lengths[vrt.Choose(name, len(lengths))]
}

func version(v1 bool) message.Version {
	if v1 {
		return message.V1
	}
	return message.V2
}

func sameMsg(m message.Message, off, us int64, key, val []byte) bool {
	return vrt.And(m.Offset == off, m.Time.UnixMicro() == us, vrt.BytesEqual(m.Key, key), vrt.BytesEqual(m.Value, val))
}

// RoundTrip: two arbitrary messages written by the real writer; positions are
// back to back by message.Size; the bytes on disk are exactly the documented
// layout; both reader kinds return the identical messages.
func RoundTrip() {
	v1 := vrt.Choose("v1", 2) == 1
	kl, vl := pickLen("klen"), pickLen("vlen")
	dir := vrt.Dir("c")
	base := vrt.Int64("base")
	vrt.Assume(base >= 0)
	path := filepath.Join(dir, "seg.log")
	w, err := message.OpenWriter(path, base, version(v1))
	vrt.Assert(err == nil, "OpenWriter on a new file")
	if err != nil {
		return
	}
	// first message: the chosen lengths; second: a short one with arbitrary offset/time
	off0, us0 := base, vrt.Int64("us")
	k0, x0 := vrt.Bytes("key", kl), vrt.Bytes("val", vl)
	off1, us1 := vrt.Int64("off"), vrt.Int64("us")
	k1, x1 := vrt.Bytes("key", 1), vrt.Bytes("val", 0)
	m0 := message.Message{Offset: off0, Time: time.UnixMicro(us0), Key: k0, Value: x0}
	m1 := message.Message{Offset: off1, Time: time.UnixMicro(us1), Key: k1, Value: x1}
	p0, err := w.Write(m0)
	vrt.Assert(err == nil, "write 0")
	p1, err := w.Write(m1)
	vrt.Assert(err == nil, "write 1")
	hdr := int64(len(kit.LogHeader(v1)))
	vrt.Assert(p0 == hdr, "first record right after the file header")
	vrt.Assert(p1 == p0+message.Size(m0, version(v1)), "records are back to back: pos1 = pos0 + Size(m0)")
	vrt.Assert(message.Size(m0, version(v1)) == int64(kit.RecordSize(v1, kl, vl)), "Size = documented record size")
	vrt.Assert(w.Size() == p1+message.Size(m1, version(v1)), "writer size = end of last record")
	vrt.Assert(w.SyncAndClose() == nil, "close writer")

	// layout: byte for byte the reference encoding
	got, ok := vrt.ReadFile(path)
	want := append(append(append([]byte{}, kit.LogHeader(v1)...), kit.EncodeRecord(v1, off0, us0, k0, x0)...), kit.EncodeRecord(v1, off1, us1, k1, x1)...)
	vrt.Assert(ok && len(got) == len(want), "file length = header + documented record sizes")
	if len(got) == len(want) {
		vrt.Assert(vrt.BytesEqual(got, want), "bytes on disk are exactly the documented layout")
	}

	for _, mem := range []bool{false, true} {
		var r *message.Reader
		if mem {
			r, err = message.OpenReaderMem(path, base)
		} else {
			r, err = message.OpenReader(path, base)
		}
		vrt.Assert(err == nil, "open reader")
		if err != nil {
			return
		}
		vrt.Assert(r.Version() == version(v1), "reader detects the version")
		vrt.Assert(r.InitialPosition() == hdr, "initial position after the file header")
		g0, n0, err := r.Read(p0)
		vrt.Assert(err == nil, "read 0")
		vrt.Assert(sameMsg(g0, off0, us0, k0, x0), "message 0 reads back identical")
		vrt.Assert(n0 == p1, "next position = position of record 1")
		g1, err := r.Get(p1)
		vrt.Assert(err == nil, "read 1")
		vrt.Assert(sameMsg(g1, off1, us1, k1, x1), "message 1 reads back identical")
		msgs, err := r.Consume(p0, p1, 5)
		vrt.Assert(err == nil && len(msgs) == 2, "Consume returns both records")
		if len(msgs) == 2 {
			vrt.Assert(sameMsg(msgs[0], off0, us0, k0, x0) && sameMsg(msgs[1], off1, us1, k1, x1), "Consume content")
		}
		one, err := r.Consume(p0, p1, 1)
		vrt.Assert(err == nil && len(one) == 1, "Consume honours maxCount")
		vrt.Assert(r.Close() == nil, "close reader")
	}
	vrt.Reach("roundtrip")
}

// Cross: a file written by the reference encoder is read correctly by the real readers.
func Cross() {
	v1 := vrt.Choose("v1", 2) == 1
	kl, vl := pickLen("klen"), pickLen("vlen")
	dir := vrt.Dir("c")
	off0, us0 := vrt.Int64("off"), vrt.Int64("us")
	vrt.Assume(off0 >= 0)
	k0, x0 := vrt.Bytes("key", kl), vrt.Bytes("val", vl)
	path := filepath.Join(dir, "seg.log")
	data := append(append([]byte{}, kit.LogHeader(v1)...), kit.EncodeRecord(v1, off0, us0, k0, x0)...)
	vrt.WriteFile(path, data)
	for _, mem := range []bool{false, true} {
		var r *message.Reader
		var err error
		if mem {
			r, err = message.OpenReaderMem(path, off0)
		} else {
			r, err = message.OpenReader(path, off0)
		}
		vrt.Assert(err == nil, "open reader on reference-encoded file")
		if err != nil {
			return
		}
		vrt.Assert(r.Version() == version(v1), "version detected")
		g, next, err := r.Read(r.InitialPosition())
		vrt.Assert(err == nil, "read reference-encoded record")
		vrt.Assert(sameMsg(g, off0, us0, k0, x0), "reference-encoded record decodes to the message")
		vrt.Assert(next == int64(len(data)), "next position = end of file")
		r.Close()
	}
	vrt.Reach("cross")
}

// IndexFormat: index.Write produces the documented item layout; Read/Stat invert it.
func IndexFormat() {
	v1 := vrt.Choose("v1", 2) == 1
	times := vrt.Choose("times", 2) == 1
	keys := vrt.Choose("keys", 2) == 1
	n := vrt.Choose("n", vrt.Bound("items", 3)+1)
	params := index.Params{Times: times, Keys: keys}
	ver := index.V2
	if v1 {
		ver = index.V1
	}
	base := vrt.Int64("base")
	vrt.Assume(base >= 0)
	items := make([]index.Item, n)
	want := append([]byte{}, kit.IndexHeader(v1, times, keys)...)
	for i := range items {
		items[i] = index.Item{Offset: vrt.Int64("off"), Position: vrt.Int64("pos")}
		if i == 0 {
			// a V1 index is recognised by its first 8 bytes being the base offset
			items[i].Offset = base
		}
		if times {
			items[i].Timestamp = vrt.Int64("ts")
		}
		if keys {
			items[i].KeyHash = vrt.Uint64("hash")
		}
		want = append(want, kit.EncodeItem(times, keys, items[i].Offset, items[i].Position, items[i].Timestamp, items[i].KeyHash)...)
	}
	vrt.Assert(params.Size() == int64(kit.ItemSize(times, keys)), "Params.Size = documented item size")
	dir := vrt.Dir("c")
	path := filepath.Join(dir, "seg.index")
	err := index.Write(path, base, ver, params, items)
	vrt.Assert(err == nil, "index.Write")
	got, ok := vrt.ReadFile(path)
	vrt.Assert(ok && len(got) == len(want), "index file length = header + n * item size")
	if len(got) == len(want) {
		vrt.Assert(vrt.BytesEqual(got, want), "index bytes are exactly the documented layout")
	}
	back, err := index.Read(path, base, params)
	vrt.Assert(err == nil, "index.Read")
	vrt.Assert(len(back) == n, "index.Read returns n items")
	if len(back) == n {
		for i := range back {
			vrt.Assert(back[i] == items[i], "index item reads back identical")
		}
	}
	size, count, err := index.Stat(path, base, params)
	vrt.Assert(err == nil && size == int64(len(want)) && count == n, "index.Stat: file size and item count")
	vrt.Reach("index")
}
