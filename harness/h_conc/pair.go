//go:build verif

// Package h_conc: two calls running concurrently on one log (C08, small-history
// linearizability under the schedule variable): every call succeeds although the
// other is in progress, and the pair of results is the one some sequential order
// of the two calls produces.
package h_conc

import (
	"time"

	"github.com/klev-dev/klevdb"
	"github.com/klev-dev/klevdb/internal/zzverif/kit"
	"github.com/klev-dev/klevdb/internal/zzverif/vrt"
)

func init() {
	vrt.Register("h_conc.Pair", Pair)
}

type result struct {
	err   error
	next  int64
	msgs  []klevdb.Message
	del   []klevdb.Message
	stamp int
}

// op kinds
const (
	opPublish = iota
	opConsume
	opGet
	opDeleteFirst
	opDeleteLast
	opNextOffset
	opGC
	opGetByKey
	opConsumeTail
	numOps
)

func run(lg klevdb.Log, kind int, l *kit.Log, live []kit.Rec, pm *klevdb.Message) result {
	var r result
	switch kind {
	case opPublish:
		msgs := []klevdb.Message{*pm}
		r.next, r.err = lg.Publish(msgs)
		r.msgs = msgs
	case opConsume:
		r.next, r.msgs, r.err = lg.Consume(klevdb.OffsetOldest, 8)
	case opGet:
		var m klevdb.Message
		m, r.err = lg.Get(live[0].Off)
		r.msgs = []klevdb.Message{m}
	case opDeleteFirst:
		r.del, _, r.err = lg.Delete(map[int64]struct{}{live[0].Off: {}})
	case opDeleteLast:
		r.del, _, r.err = lg.Delete(map[int64]struct{}{live[len(live)-1].Off: {}})
	case opNextOffset:
		r.next, r.err = lg.NextOffset()
	case opGC:
		r.err = lg.GC(0)
	case opGetByKey:
		var m klevdb.Message
		m, r.err = lg.GetByKey(live[0].Key)
		r.msgs = []klevdb.Message{m}
	case opConsumeTail:
		r.next, r.msgs, r.err = lg.Consume(l.Next, 4)
	}
	return r
}

// Pair: ops a and b run concurrently from an arbitrary small directory.
func Pair() {
	sh := kit.ChooseShape()
	l := kit.Gen(sh, true, true)
	l.MonotoneTimes()
	live := l.Live()
	vrt.Assume(len(live) > 0)
	for i := range live {
		if len(live[i].Key) > 0 {
			vrt.Assume(live[i].Key[0] == byte(i))
		}
		if i > 0 {
			vrt.Assume(live[i].Us > live[i-1].Us)
		}
	}
	if vrt.Choose("rmindex", 2) == 1 {
		// index files removed: the first access of each segment rebuilds its index
		for i := range l.Segs {
			l.Segs[i].Index = false
		}
		vrt.Reach("index-files-removed")
	}
	l.Build("d")
	opts := l.Options()
	if vrt.Choose("roll", 2) == 1 {
		opts.Rollover = 1
	}
	lg, err := klevdb.Open(l.Dir, opts)
	vrt.Assert(err == nil, "Open")
	if err != nil {
		return
	}
	a := vrt.Choose("opa", numOps)
	b := vrt.Choose("opb", numOps)
	vrt.Assume(a <= b)
	if vrt.Bound("pairs_mutating_only", 0) == 1 {
		// quick tier: pairs with at least one state-changing call, plus the read/read
		// pairs that race on the lazy index rebuild
		mut := a == opPublish || a == opDeleteFirst || a == opDeleteLast || b == opDeleteFirst || b == opDeleteLast
		vrt.Assume(mut || (a == opGet && b == opGetByKey))
	}
	// two deletes of the same message are a legal but uninteresting pair
	us := vrt.Int64("pus")
	vrt.Assume(us > live[len(live)-1].Us)
	pma := klevdb.Message{Time: time.UnixMicro(us), Key: []byte{200}, Value: vrt.Bytes("pval", 1)}
	pmb := klevdb.Message{Time: time.UnixMicro(us), Key: []byte{201}, Value: vrt.Bytes("pval", 1)}
	var ra, rb result
	da, db := false, false
	vrt.Go("a", func() { ra = run(lg, a, l, live, &pma); da = true })
	vrt.Go("b", func() { rb = run(lg, b, l, live, &pmb); db = true })
	vrt.WaitQuiescent()
	vrt.Assert(da && db, "both calls return (no deadlock)")
	if !da || !db {
		return
	}
	// no call fails merely because another call was in progress
	// the offset a call addresses (-1: none)
	target := func(kind int) int64 {
		switch kind {
		case opGet, opGetByKey, opDeleteFirst:
			return live[0].Off
		case opDeleteLast:
			return live[len(live)-1].Off
		}
		return -1
	}
	isDelete := func(kind int) bool { return kind == opDeleteFirst || kind == opDeleteLast }
	okErr := func(kind int, r result, other int) bool {
		if r.err == nil {
			return true
		}
		// the only legitimate failure: the other call deletes the very message this call
		// addresses (the sequential order "delete first" gives the same not-found error)
		if isDelete(other) && target(kind) == target(other) && target(kind) >= 0 {
			return vrt.And(vrt.ErrIs(r.err, klevdb.ErrNotFound), len(r.del) == 0)
		}
		return false
	}
	vrt.Assert(okErr(a, ra, b), "call a does not fail because call b is in progress")
	vrt.Assert(okErr(b, rb, a), "call b does not fail because call a is in progress")
	// publishers receive disjoint consecutive offsets
	if a == opPublish && b == opPublish && ra.err == nil && rb.err == nil {
		vrt.Reach("two-publishers")
		x, y := ra.msgs[0].Offset, rb.msgs[0].Offset
		vrt.Assert((x == l.Next && y == l.Next+1) || (y == l.Next && x == l.Next+1), "publishers receive disjoint consecutive offsets")
	}
	// a reader sees the live messages, with or without the other call's effect, never anything else
	check := func(kind int, r result, other int, otherRes result) {
		if r.err != nil {
			return
		}
		switch kind {
		case opConsume:
			vrt.Reach("consume-concurrent")
			// contiguous run from the oldest message of some linearization
			i0 := 0
			if other == opDeleteFirst && len(r.msgs) > 0 && r.msgs[0].Offset != live[0].Off {
				i0 = 1
			}
			for j, m := range r.msgs {
				idx := i0 + j
				if idx < len(live) {
					if other == opDeleteLast && idx == len(live)-1 {
						// may or may not be there
					}
					vrt.Assert(kit.Same(m, live[idx]), "a concurrent Consume returns live messages in order, without gaps that are not a reported delete")
				} else {
					vrt.Assert(other == opPublish && idx == len(live) && m.Offset == l.Next, "a concurrent Consume invents nothing")
				}
			}
		case opGet, opGetByKey:
			vrt.Assert(kit.Same(r.msgs[0], live[0]), "a message once visible does not change")
		case opNextOffset:
			if other == opPublish {
				vrt.Assert(r.next == l.Next || r.next == l.Next+1, "NextOffset is the value before or after the concurrent Publish")
			} else {
				vrt.Assert(r.next == l.Next, "NextOffset")
			}
		case opDeleteFirst:
			// Delete may give up when the segment changed under it (it then reports nothing)
			vrt.Assert(len(r.del) <= 1, "Delete reports at most the requested message")
			if len(r.del) == 1 {
				vrt.Assert(kit.Same(r.del[0], live[0]), "Delete reports exactly the deleted message")
			}
		case opDeleteLast:
			vrt.Assert(len(r.del) <= 1, "Delete reports at most the requested message")
			if len(r.del) == 1 {
				vrt.Assert(kit.Same(r.del[0], live[len(live)-1]), "Delete reports exactly the deleted message")
			}
		case opConsumeTail:
			vrt.Reach("tail-consume")
			// a tailing consumer: nothing yet (next = the offset asked for) or the message just published
			if len(r.msgs) == 0 {
				vrt.Assert(r.next == l.Next, "a tailing Consume without messages does not move past unread offsets (readers never see a gap)")
			} else {
				vrt.Assert(other == opPublish && len(r.msgs) == 1 && r.msgs[0].Offset == l.Next && r.next == l.Next+1, "a tailing Consume returns exactly the message published concurrently")
			}
		}
	}
	check(a, ra, b, rb)
	check(b, rb, a, ra)
	// final state: the log holds live minus reported deletes plus published messages
	var want []kit.Rec
	for _, r := range live {
		gone := false
		for _, d := range append(append([]klevdb.Message{}, ra.del...), rb.del...) {
			if d.Offset == r.Off {
				gone = true
			}
		}
		if !gone {
			want = append(want, r)
		}
	}
	next := l.Next
	var pubs []klevdb.Message
	if a == opPublish && ra.err == nil {
		pubs = append(pubs, ra.msgs[0])
	}
	if b == opPublish && rb.err == nil {
		pubs = append(pubs, rb.msgs[0])
	}
	if len(pubs) == 2 && pubs[0].Offset > pubs[1].Offset {
		pubs[0], pubs[1] = pubs[1], pubs[0]
	}
	for _, p := range pubs {
		want = append(want, kit.Rec{Off: p.Offset, Us: p.Time.UnixMicro(), Key: p.Key, Val: p.Value})
		next++
	}
	kit.Observe(lg, want, next, "after both calls")
	vrt.Assert(lg.Close() == nil, "Close")
	vrt.Reach("pair-done")
}
