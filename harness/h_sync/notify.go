//go:build verif

// Package h_sync: blocking consume wakes for every publish and never for
// nothing (C18) — pkg/notify and the blocking wrapper under a symbolic scheduler.
package h_sync

import (
	"context"

	"github.com/klev-dev/klevdb/internal/zzverif/vrt"
	"github.com/klev-dev/klevdb/pkg/notify"
)

func init() {
	vrt.Register("h_sync.NotifyImmediate", NotifyImmediate)
	vrt.Register("h_sync.NotifyWake", NotifyWake)
}

// NotifyImmediate: a single goroutine; an offset below the next offset returns
// without blocking; a wait at or beyond it that starts after Close fails.
func NotifyImmediate() {
	next := vrt.Int64("next")
	vrt.Assume(next >= 0 && next < 1<<62)
	n := notify.NewOffset(next)
	off := vrt.Int64("off")
	if off < next {
		vrt.Reach("below")
		vrt.Assert(n.Wait(context.Background(), off) == nil, "an offset below NextOffset (or relative) returns immediately")
	}
	vrt.Assert(n.Close() == nil, "Close")
	err := n.Wait(context.Background(), off)
	if off >= next {
		vrt.Reach("after-close")
		vrt.Assert(err == notify.ErrOffsetNotifyClosed, "a wait at or beyond NextOffset that starts after Close fails")
	} else {
		vrt.Assert(err == nil, "below NextOffset: still immediate after Close")
	}
	vrt.Assert(n.Close() == notify.ErrOffsetNotifyClosed, "second Close fails")
}

// NotifyWake: W waiters and P publishers (Set) plus optionally Close, all as
// goroutines under the schedule variable. At quiescence: a waiter that is still
// parked has an offset at or beyond the final next offset, no Close happened
// and (no lost wakeup); a waiter that returned nil either had offset < next at
// some point or a Set/Close happened after it started.
func NotifyWake() {
	next := vrt.Int64("next")
	vrt.Assume(next >= 0 && next < 1<<60)
	n := notify.NewOffset(next)
	W := 1 + vrt.Choose("waiters", vrt.Bound("waiters", 2))
	P := 1 + vrt.Choose("publishers", vrt.Bound("publishers", 2))
	doClose := vrt.Choose("close", 2) == 1
	offs := make([]int64, W)
	done := make([]bool, W)
	errs := make([]error, W)
	events := 0 // number of Set/Close calls completed (ghost)
	startedAt := make([]int, W)
	cur := next
	closed := false
	for i := 0; i < W; i++ {
		i := i
		offs[i] = vrt.Int64("off")
		vrt.Assume(offs[i] >= 0)
		vrt.Go("waiter", func() {
			startedAt[i] = events
			errs[i] = n.Wait(context.Background(), offs[i])
			done[i] = true
		})
	}
	for p := 0; p < P; p++ {
		d := vrt.Int64("delta")
		vrt.Assume(d >= 0 && d < 1<<20)
		vrt.Go("publisher", func() {
			// a publisher moves the next offset forward (Set is given the offset returned by Publish)
			vrt.Atomic(func() { cur = cur + d })
			v := cur
			n.Set(v)
			events++
		})
	}
	if doClose {
		vrt.Go("closer", func() {
			closed = true
			_ = n.Close()
			events++
		})
	}
	vrt.WaitQuiescent()
	for i := 0; i < W; i++ {
		if !done[i] {
			vrt.Reach("still-parked")
			vrt.Assert(!closed, "no waiter stays parked after Close")
			vrt.Assert(offs[i] >= cur, "no lost wakeup: a parked waiter's offset is at or beyond the final NextOffset")
		} else {
			vrt.Reach("returned")
			vrt.Assert(errs[i] == nil || errs[i] == notify.ErrOffsetNotifyClosed, "a waiter returns nil or the closed error")
			if errs[i] == notify.ErrOffsetNotifyClosed {
				vrt.Assert(closed, "the closed error only after Close")
			}
			if errs[i] == nil && !(offs[i] < cur) {
				// woken although its offset was never passed: only by an event that happened after it started
				vrt.Assert(events > startedAt[i], "never for nothing: a waiter whose offset was not passed returns only if a Set or Close happened since it started")
			}
		}
	}
}
