//go:build verif

package h_sync

import (
	"context"
	"time"

	"github.com/klev-dev/klevdb"
	"github.com/klev-dev/klevdb/internal/zzverif/vrt"
)

func init() {
	vrt.Register("h_sync.BlockingImmediate", BlockingImmediate)
	vrt.Register("h_sync.BlockingWake", BlockingWake)
}

// mlog is a minimal sequential Log (the blocking wrapper only needs the Log
// interface): dense offsets from `base`, Consume per the C03 statement.
type mlog struct {
	base   int64
	msgs   []klevdb.Message
	closed bool
}

func (m *mlog) next() int64 { return m.base + int64(len(m.msgs)) }

func (m *mlog) Publish(msgs []klevdb.Message) (int64, error) {
	for i := range msgs {
		msgs[i].Offset = m.next()
		m.msgs = append(m.msgs, msgs[i])
	}
	return m.next(), nil
}
func (m *mlog) NextOffset() (int64, error) { return m.next(), nil }
func (m *mlog) Consume(offset int64, maxCount int64) (int64, []klevdb.Message, error) {
	if offset == klevdb.OffsetNewest {
		return m.next(), nil, nil
	}
	if offset > m.next() {
		return klevdb.OffsetInvalid, nil, klevdb.ErrInvalidOffset
	}
	i := offset - m.base
	if i < 0 {
		i = 0
	}
	var out []klevdb.Message
	for ; i < int64(len(m.msgs)) && int64(len(out)) < maxCount; i++ {
		out = append(out, m.msgs[i])
	}
	if len(out) == 0 {
		return m.next(), nil, nil
	}
	return out[len(out)-1].Offset + 1, out, nil
}
func (m *mlog) ConsumeByKey(key []byte, offset int64, maxCount int64) (int64, []klevdb.Message, error) {
	return m.Consume(offset, maxCount)
}
func (m *mlog) Get(int64) (klevdb.Message, error)          { return klevdb.InvalidMessage, klevdb.ErrNotFound }
func (m *mlog) GetByKey([]byte) (klevdb.Message, error)     { return klevdb.InvalidMessage, klevdb.ErrNotFound }
func (m *mlog) OffsetByKey([]byte) (int64, error)           { return klevdb.OffsetInvalid, klevdb.ErrNotFound }
func (m *mlog) GetByTime(time.Time) (klevdb.Message, error) { return klevdb.InvalidMessage, klevdb.ErrNotFound }
func (m *mlog) OffsetByTime(time.Time) (int64, time.Time, error) {
	return klevdb.OffsetInvalid, time.Time{}, klevdb.ErrNotFound
}
func (m *mlog) Delete(map[int64]struct{}) ([]klevdb.Message, int64, error) { return nil, 0, nil }
func (m *mlog) Size(klevdb.Message) int64                                   { return 0 }
func (m *mlog) Stat() (klevdb.Stats, error)                                 { return klevdb.Stats{}, nil }
func (m *mlog) Backup(string) error                                         { return nil }
func (m *mlog) Sync() (int64, error)                                        { return m.next(), nil }
func (m *mlog) GC(time.Duration) error                                      { return nil }
func (m *mlog) Close() error                                                { m.closed = true; return nil }

// cctx is a cancellable context implemented in the harness.
type cctx struct {
	done chan struct{}
	err  error
}

func (c *cctx) Deadline() (time.Time, bool) { return time.Time{}, false }
func (c *cctx) Done() <-chan struct{}       { return c.done }
func (c *cctx) Err() error                  { return c.err }
func (c *cctx) Value(any) any               { return nil }
func (c *cctx) cancel()                     { c.err = context.Canceled; close(c.done) }

// BlockingImmediate: a single goroutine — an offset below NextOffset or a
// relative one returns without blocking (a blocked main goroutine would be a deadlock).
func BlockingImmediate() {
	base := vrt.Int64("base")
	vrt.Assume(base >= 0 && base < 1<<60)
	m := &mlog{base: base}
	n := vrt.Choose("n", 3)
	for i := 0; i < n; i++ {
		m.msgs = append(m.msgs, klevdb.Message{Offset: base + int64(i)})
	}
	bl, err := klevdb.WrapBlocking(m)
	vrt.Assert(err == nil, "WrapBlocking")
	off := vrt.Int64("off")
	vrt.Assume(off < m.next())
	next, msgs, err := bl.ConsumeBlocking(context.Background(), off, 4)
	wn, wmsgs, werr := m.Consume(off, 4)
	vrt.Assert((err == nil) == (werr == nil) && next == wn && len(msgs) == len(wmsgs), "ConsumeBlocking below NextOffset (or relative) returns at once what Consume returns")
	next, msgs, err = bl.ConsumeByKeyBlocking(context.Background(), nil, off, 4)
	vrt.Assert((err == nil) == (werr == nil) && next == wn && len(msgs) == len(wmsgs), "ConsumeByKeyBlocking below NextOffset returns at once what ConsumeByKey returns")
	vrt.Reach("immediate")
	vrt.Assert(bl.Close() == nil, "Close")
	_, _, err = bl.ConsumeBlocking(context.Background(), m.next(), 4)
	vrt.Assert(err != nil, "a wait at NextOffset that starts after Close fails")
}

// BlockingWake: waiters at/above/below NextOffset, publishers, an optional
// context cancellation and an optional Close, all concurrent.
func BlockingWake() {
	base := vrt.Int64("base")
	vrt.Assume(base >= 0 && base < 1<<60)
	m := &mlog{base: base}
	bl, err := klevdb.WrapBlocking(m)
	vrt.Assert(err == nil, "WrapBlocking")
	W := 1 + vrt.Choose("waiters", vrt.Bound("waiters", 2))
	P := 1 + vrt.Choose("publishers", vrt.Bound("publishers", 1))
	doClose := vrt.Choose("close", 2) == 1
	doCancel := vrt.Choose("cancel", 2) == 1
	offs := make([]int64, W)
	done := make([]bool, W)
	errs := make([]error, W)
	nexts := make([]int64, W)
	got := make([][]klevdb.Message, W)
	startedAt := make([]int, W)
	events := 0
	closed := false
	cancelled := false
	cc := &cctx{done: make(chan struct{})}
	for i := 0; i < W; i++ {
		i := i
		offs[i] = base + int64(vrt.Choose("woff", 3)) // at, one above, two above the initial next offset
		var ctx context.Context = context.Background()
		if i == 0 && doCancel {
			ctx = cc
		}
		vrt.Go("waiter", func() {
			startedAt[i] = events
			nexts[i], got[i], errs[i] = bl.ConsumeBlocking(ctx, offs[i], 4)
			done[i] = true
		})
	}
	for p := 0; p < P; p++ {
		b := vrt.Choose("batch", 3)
		vrt.Go("publisher", func() {
			msgs := make([]klevdb.Message, b)
			_, err := bl.Publish(msgs)
			vrt.Assert(err == nil, "Publish")
			events++
		})
	}
	if doCancel {
		vrt.Go("canceller", func() {
			cancelled = true
			cc.cancel()
			events++
		})
	}
	if doClose {
		vrt.Go("closer", func() {
			closed = true
			_ = bl.Close()
			events++
		})
	}
	vrt.WaitQuiescent()
	for i := 0; i < W; i++ {
		if !done[i] {
			vrt.Reach("still-parked")
			vrt.Assert(!closed, "no waiter stays blocked after Close")
			vrt.Assert(offs[i] >= m.next(), "every Publish that moves NextOffset past the offset wakes the waiter")
			vrt.Assert(!(i == 0 && cancelled), "a waiter whose context ended does not stay blocked")
			continue
		}
		vrt.Reach("returned")
		if errs[i] == nil {
			// the result is what Consume returns at that moment: a run of the published messages from the offset
			vrt.Assert(nexts[i] <= m.next(), "returned next offset is at most NextOffset")
			for j, g := range got[i] {
				vrt.Assert(g.Offset == offs[i]+int64(j), "returned messages are the published ones from the requested offset")
			}
			if len(got[i]) == 0 && offs[i] >= m.next() {
				vrt.Assert(events > startedAt[i], "never for nothing: woken without messages only by a publish, Close or context end that happened since the wait started")
			}
		} else if i == 0 && doCancel && errs[i] == context.Canceled {
			vrt.Reach("cancelled")
			vrt.Assert(cancelled, "the context error only after the context ended")
		} else if vrt.ErrIs(errs[i], klevdb.ErrInvalidOffset) {
			// woken by a publish that did not reach the offset: the result is what Consume
			// returns at that moment for an offset beyond NextOffset
			vrt.Reach("woken-below-offset")
			vrt.Assert(offs[i] > base && events > startedAt[i], "ErrInvalidOffset only for an offset beyond NextOffset, after a wake-up")
		} else {
			vrt.Assert(closed, "any other error only after Close")
		}
	}
}
