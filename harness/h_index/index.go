//go:build verif

// Package h_index: tier-A harnesses for the pure index / segment searches
// (properties C03, C04, C10). Exported klevdb identifiers only.
package h_index

import (
	"github.com/klev-dev/klevdb/internal/zzverif/vrt"
	"github.com/klev-dev/klevdb/pkg/index"
	"github.com/klev-dev/klevdb/pkg/message"
	"github.com/klev-dev/klevdb/pkg/segment"
)

func init() {
	vrt.Register("h_index.IndexConsume", IndexConsume)
	vrt.Register("h_index.IndexGet", IndexGet)
	vrt.Register("h_index.IndexTime", IndexTime)
	vrt.Register("h_index.SegmentConsume", SegmentConsume)
	vrt.Register("h_index.SegmentGet", SegmentGet)
	vrt.Register("h_index.MinOffsetOrder", MinOffsetOrder)
}

// items: n symbolic items with strictly increasing offsets (the documented invariant).
func genItems(n int) []index.Item {
	items := make([]index.Item, n)
	for i := range items {
		items[i].Offset = vrt.Int64("off")
		items[i].Position = vrt.Int64("pos")
		if i > 0 {
			vrt.Assume(items[i-1].Offset < items[i].Offset)
		}
	}
	return items
}

// IndexConsume: index.Consume returns the position of the first item whose
// offset is >= q (lower bound) and the position of the last item.
func IndexConsume() {
	n := vrt.Choose("n", vrt.Bound("items", 6)+1)
	items := genItems(n)
	q := vrt.Int64("q")
	pos, maxPos, err := index.Consume(items, q)
	if n == 0 {
		vrt.Reach("empty")
		vrt.Assert(err == index.ErrOffsetIndexEmpty, "empty index => ErrOffsetIndexEmpty")
		return
	}
	last := items[n-1]
	switch {
	case q == message.OffsetOldest:
		vrt.Reach("oldest")
		vrt.Assert(err == nil, "oldest: no error")
		vrt.Assert(pos == items[0].Position, "oldest: first position")
		vrt.Assert(maxPos == last.Position, "oldest: max position")
		return
	case q == message.OffsetNewest:
		vrt.Reach("newest")
		vrt.Assert(err == nil, "newest: no error")
		vrt.Assert(pos == last.Position, "newest: last position")
		vrt.Assert(maxPos == last.Position, "newest: max position")
		return
	}
	if q > last.Offset {
		vrt.Reach("after-end")
		vrt.Assert(err == index.ErrOffsetAfterEnd, "after end => ErrOffsetAfterEnd")
		return
	}
	vrt.Assert(err == nil, "in range: no error")
	vrt.Assert(maxPos == last.Position, "in range: max position is the last item's")
	// lower bound: the first item with Offset >= q
	for i := 0; i < n; i++ {
		if items[i].Offset >= q {
			if i > 0 && i < n-1 {
				vrt.Reach("middle")
			}
			vrt.Assert(pos == items[i].Position, "lower bound position")
			return
		}
	}
	vrt.Assert(false, "unreachable: q <= last.Offset has a lower bound")
}

// IndexGet: exact match or the right error class.
func IndexGet() {
	n := vrt.Choose("n", vrt.Bound("items", 6)+1)
	items := genItems(n)
	q := vrt.Int64("q")
	pos, err := index.Get(items, q)
	if n == 0 {
		vrt.Assert(err == index.ErrOffsetIndexEmpty, "empty index => ErrOffsetIndexEmpty")
		return
	}
	switch {
	case q == message.OffsetOldest:
		vrt.Assert(err == nil && pos == items[0].Position, "oldest: first position")
		return
	case q == message.OffsetNewest:
		vrt.Assert(err == nil && pos == items[n-1].Position, "newest: last position")
		return
	}
	if q < items[0].Offset {
		vrt.Reach("before-start")
		vrt.Assert(err == index.ErrOffsetBeforeStart, "before start => ErrOffsetBeforeStart")
		return
	}
	if q > items[n-1].Offset {
		vrt.Reach("after-end")
		vrt.Assert(err == index.ErrOffsetAfterEnd, "after end => ErrOffsetAfterEnd")
		return
	}
	for i := 0; i < n; i++ {
		if items[i].Offset == q {
			vrt.Reach("found")
			vrt.Assert(err == nil, "present: no error")
			vrt.Assert(pos == items[i].Position, "present: exact position")
			return
		}
	}
	vrt.Reach("hole")
	vrt.Assert(err == index.ErrOffsetNotFound, "hole => ErrOffsetNotFound")
	vrt.Assert(vrt.ErrIs(err, message.ErrNotFound), "hole is a not-found error")
	vrt.Assert(!vrt.ErrIs(err, message.ErrInvalidOffset), "hole is not an invalid-offset error")
}

// IndexTime: position of the first item with Timestamp >= ts on non-decreasing timestamps.
func IndexTime() {
	n := vrt.Choose("n", vrt.Bound("items", 6)+1)
	items := make([]index.Item, n)
	for i := range items {
		items[i].Timestamp = vrt.Int64("ts")
		items[i].Position = vrt.Int64("pos")
		if i > 0 {
			vrt.Assume(items[i-1].Timestamp <= items[i].Timestamp)
		}
	}
	ts := vrt.Int64("q")
	pos, err := index.Time(items, ts)
	if n == 0 {
		vrt.Assert(err == index.ErrTimeIndexEmpty, "empty => ErrTimeIndexEmpty")
		return
	}
	if ts < items[0].Timestamp {
		vrt.Reach("before")
		vrt.Assert(err == index.ErrTimeBeforeStart, "before start => ErrTimeBeforeStart")
		return
	}
	if ts > items[n-1].Timestamp {
		vrt.Reach("after")
		vrt.Assert(err == index.ErrTimeAfterEnd, "after end => ErrTimeAfterEnd")
		return
	}
	for i := 0; i < n; i++ {
		if items[i].Timestamp >= ts {
			if i > 0 && items[i].Timestamp == items[i-1].Timestamp {
				vrt.Assert(false, "unreachable: first item at or after ts cannot repeat its predecessor")
			}
			if i+1 < n && items[i+1].Timestamp == items[i].Timestamp {
				vrt.Reach("equal-run")
			}
			vrt.Assert(err == nil, "in range: no error")
			vrt.Assert(pos == items[i].Position, "first item at or after ts")
			return
		}
	}
	vrt.Assert(false, "unreachable")
}

type seg struct{ base int64 }

func (s seg) GetOffset() int64 { return s.base }

func genSegs(n int) []seg {
	segs := make([]seg, n)
	for i := range segs {
		segs[i].base = vrt.Int64("base")
		vrt.Assume(segs[i].base >= 0)
		if i > 0 {
			vrt.Assume(segs[i-1].base < segs[i].base)
		}
	}
	return segs
}

// SegmentConsume: the last segment whose base is <= q, or the first one.
func SegmentConsume() {
	n := 1 + vrt.Choose("n", vrt.Bound("segments", 5))
	segs := genSegs(n)
	q := vrt.Int64("q")
	s, idx := segment.Consume(segs, q)
	switch {
	case q == message.OffsetOldest:
		vrt.Assert(idx == 0 && s == segs[0], "oldest: first segment")
		return
	case q == message.OffsetNewest:
		vrt.Assert(idx == n-1 && s == segs[n-1], "newest: last segment")
		return
	}
	want := 0
	for i := 0; i < n; i++ {
		if segs[i].base <= q {
			want = i
		}
	}
	if want > 0 && want < n-1 {
		vrt.Reach("middle")
	}
	vrt.Assert(idx == want, "segment index = last base <= q (or 0)")
	vrt.Assert(s == segs[want], "segment value matches index")
}

// SegmentGet: as Consume, but an offset before the first base is an error.
func SegmentGet() {
	n := 1 + vrt.Choose("n", vrt.Bound("segments", 5))
	segs := genSegs(n)
	q := vrt.Int64("q")
	s, idx, err := segment.Get(segs, q)
	switch {
	case q == message.OffsetOldest:
		vrt.Assert(err == nil && idx == 0 && s == segs[0], "oldest: first segment")
		return
	case q == message.OffsetNewest:
		vrt.Assert(err == nil && idx == n-1 && s == segs[n-1], "newest: last segment")
		return
	}
	if q < segs[0].base {
		vrt.Reach("before")
		vrt.Assert(err != nil, "before the first base: error")
		if segs[0].base == 0 {
			// only negative offsets are below base 0
			vrt.Assert(vrt.ErrIs(err, message.ErrInvalidOffset), "negative offset on a log starting at 0 => invalid offset")
		} else {
			vrt.Assert(vrt.ErrIs(err, message.ErrNotFound), "offset before the first segment => not found")
		}
		return
	}
	want := 0
	for i := 0; i < n; i++ {
		if segs[i].base <= q {
			want = i
		}
	}
	vrt.Assert(err == nil, "in range: no error")
	vrt.Assert(idx == want, "segment index = last base <= q")
	vrt.Assert(s == segs[want], "segment value matches index")
}

// MinOffsetOrder: message.MinOffset does not depend on map iteration order
// (the only range-over-map in the non-test code).
func MinOffsetOrder() {
	n := vrt.Choose("n", vrt.Bound("mapsize", 4)+1)
	m := map[int64]struct{}{}
	var keys []int64
	for i := 0; i < n; i++ {
		k := vrt.Int64("k")
		for _, o := range keys {
			vrt.Assume(o != k)
		}
		keys = append(keys, k)
		m[k] = struct{}{}
	}
	got := message.MinOffset(m)
	if n == 0 {
		vrt.Assert(got == message.OffsetInvalid, "empty set => OffsetInvalid")
		return
	}
	for _, k := range keys {
		vrt.Assert(got <= k, "result is a lower bound")
	}
	found := false
	for _, k := range keys {
		found = vrt.Or(found, k == got)
	}
	vrt.Assert(found, "result is a member")
}
