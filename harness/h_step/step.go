//go:build verif

// Package h_step: inductive step harnesses. The pre-state is an arbitrary
// well-formed directory (sigma, Lambda); one real API call is executed; the
// result, every read view and the directory after Close must be those of the
// expected abstract log, and the directory must again be well-formed (so that
// one step covers histories of any length within the shape bounds).
// Properties C01, C02, C11, C12, C17.
package h_step

import (
	"context"
	"time"

	"github.com/klev-dev/klevdb"
	"github.com/klev-dev/klevdb/internal/zzverif/kit"
	"github.com/klev-dev/klevdb/internal/zzverif/vrt"
)

func init() {
	vrt.Register("h_step.Publish", Publish)
	vrt.Register("h_step.Delete", Delete)
	vrt.Register("h_step.Reopen", Reopen)
	vrt.Register("h_step.DeleteMulti", DeleteMulti)
	vrt.Register("h_step.Migrate", Migrate)
	vrt.Register("h_step.Reuse", Reuse)
}

// Reuse: offsets are never assigned twice — delete the newest messages (or
// everything), optionally close and reopen, publish again (C02).
func Reuse() {
	p := setup()
	lg := open(p)
	live := p.l.Live()
	vrt.Assume(len(live) > 0)
	// delete the last k live messages (k = all: the whole log is emptied)
	k := 1 + vrt.Choose("tail", len(live))
	set := map[int64]struct{}{}
	for _, r := range live[len(live)-k:] {
		set[r.Off] = struct{}{}
	}
	_, _, err := klevdb.DeleteMulti(context.Background(), lg, set, func(context.Context) error { return nil })
	vrt.Assert(err == nil, "DeleteMulti of the newest messages succeeds")
	want := append([]kit.Rec{}, live[:len(live)-k]...)
	if k == len(live) {
		vrt.Reach("all-deleted")
	} else {
		vrt.Reach("tail-deleted")
	}
	n, err := lg.NextOffset()
	vrt.Assert(err == nil && n == p.l.Next, "NextOffset does not move when the newest messages are deleted")
	if vrt.Choose("reopen", 2) == 1 {
		vrt.Assert(lg.Close() == nil, "Close")
		d := kit.DecodeDir(p.l.Dir, p.l.Times, p.l.Keys, p.monotone, "after deleting the tail")
		kit.SameLog(d, want, p.l.Next, "after deleting the tail")
		p.opts.Check = vrt.Choose("check", 2) == 1
		p.opts.Recover = vrt.Choose("recover", 2) == 1
		lg = open(p)
		vrt.Reach("empty-head-reopened")
		n, err = lg.NextOffset()
		vrt.Assert(err == nil && n == p.l.Next, "NextOffset survives close and reopen of a log whose newest messages were deleted")
	}
	us := vrt.Int64("pus")
	if p.monotone {
		// times never decrease in publish order (the deleted messages were published before)
		vrt.Assume(us >= live[len(live)-1].Us)
	}
	if p.monotone {
		vrt.Assume(us >= 0)
	}
	msgs := []klevdb.Message{{Time: time.UnixMicro(us), Key: vrt.Bytes("pkey", 1), Value: vrt.Bytes("pval", 1)}}
	vrt.Assume(!msgs[0].Time.IsZero())
	next, err := lg.Publish(msgs)
	vrt.Assert(err == nil, "Publish after deleting the tail")
	vrt.Assert(msgs[0].Offset == p.l.Next, "a deleted offset is never assigned again")
	vrt.Assert(next == p.l.Next+1, "Publish returns previous NextOffset + 1")
	want = append(want, kit.Rec{Off: p.l.Next, Us: us, Key: msgs[0].Key, Val: msgs[0].Value})
	kit.Observe(lg, want, p.l.Next+1, "after republish")
	closeAndDecode(p, lg, want, p.l.Next+1, "after republish+Close")
}

type pre struct {
	l        *kit.Log
	opts     klevdb.Options
	monotone bool
}

// setup: shape, index configuration, optional removal of index files, options.
func setup() *pre {
	sh := kit.ChooseShape()
	cfg := vrt.Choose("params", vrt.Bound("paramsets", 2))
	// index configurations: 0 both, 1 none, 2 times only, 3 keys only
	times := cfg == 0 || cfg == 2
	keys := cfg == 0 || cfg == 3
	l := kit.Gen(sh, times, keys)
	p := &pre{l: l}
	if times {
		// index timestamps equal message times only for non-decreasing times
		l.MonotoneTimes()
		p.monotone = true
	}
	switch vrt.Choose("rmindex", vrt.Bound("rmindex", 2)) {
	case 1:
		for i := range l.Segs {
			l.Segs[i].Index = false
		}
		vrt.Reach("all-index-files-removed")
	case 2:
		l.Segs[0].Index = false
	case 3:
		l.Segs[len(l.Segs)-1].Index = false
	}
	l.Build("d")
	p.opts = l.Options()
	return p
}

func verOpt(name string) klevdb.Version {
	if vrt.Choose(name, 2) == 1 {
		return klevdb.V1
	}
	return klevdb.V2
}

func open(p *pre) klevdb.Log {
	lg, err := klevdb.Open(p.l.Dir, p.opts)
	vrt.Assert(err == nil, "Open succeeds on a well-formed directory")
	if err != nil {
		vrt.Assume(false)
	}
	return lg
}

func closeAndDecode(p *pre, lg klevdb.Log, want []kit.Rec, next int64, what string) *kit.Log {
	vrt.Assert(lg.Close() == nil, what+": Close succeeds")
	d := kit.DecodeDir(p.l.Dir, p.l.Times, p.l.Keys, p.monotone, what)
	kit.SameLog(d, want, next, what)
	return d
}

// Publish: one Publish call (batch 0..B, caller-supplied offsets ignored, zero
// time replaced by the clock, arbitrary Rollover) from an arbitrary directory.
func Publish() {
	p := setup()
	p.opts.Rollover = vrt.Int64("rollover")
	p.opts.Version.NewSegmentsVersion = verOpt("newver")
	lg := open(p)
	live := p.l.Live()
	b := vrt.Choose("batch", vrt.Bound("batch", 2)+1)
	msgs := make([]klevdb.Message, b)
	lastUs := int64(0)
	if len(live) > 0 {
		lastUs = live[len(live)-1].Us
	}
	zero := time.Time{}
	for i := range msgs {
		kl, vl := 1, 1
		if i%2 == 1 {
			kl, vl = 0, 0
		}
		us := vrt.Int64("pus")
		if p.monotone {
			vrt.Assume(us >= lastUs)
			lastUs = us
		}
		msgs[i] = klevdb.Message{Offset: vrt.Int64("poff"), Time: time.UnixMicro(us), Key: vrt.Bytes("pkey", kl), Value: vrt.Bytes("pval", vl)}
		if !p.monotone && i == 0 && vrt.Choose("zerotime", 2) == 1 {
			msgs[i].Time = zero
			vrt.Reach("zero-time")
		}
	}
	headFull := false
	next, err := lg.Publish(msgs)
	vrt.Assert(err == nil, "Publish succeeds")
	if err != nil {
		return
	}
	vrt.Assert(next == p.l.Next+int64(b), "Publish returns the previous NextOffset plus the batch size")
	want := append([]kit.Rec{}, live...)
	for i := range msgs {
		vrt.Assert(msgs[i].Offset == p.l.Next+int64(i), "messages get exactly the offsets in between, in order, whatever the caller supplied")
		vrt.Assert(!msgs[i].Time.IsZero(), "a zero time is replaced by the current time")
		want = append(want, kit.Rec{Off: p.l.Next + int64(i), Us: msgs[i].Time.UnixMicro(), Key: msgs[i].Key, Val: msgs[i].Value})
	}
	if b == 0 {
		vrt.Reach("empty-batch")
	}
	_ = headFull
	kit.Observe(lg, want, p.l.Next+int64(b), "after Publish")
	so, err := lg.Sync()
	vrt.Assert(err == nil && so == p.l.Next+int64(b), "Sync returns NextOffset")
	d := closeAndDecode(p, lg, want, p.l.Next+int64(b), "after Publish+Close")
	if len(d.Segs) > len(p.l.Segs) {
		vrt.Reach("rollover")
		if b == 0 {
			vrt.Reach("empty-batch-with-rollover")
		}
		nh := d.Segs[len(d.Segs)-1]
		vrt.Assert(nh.V1 == (p.opts.Version.NewSegmentsVersion == klevdb.V1) || len(nh.Recs) == 0, "a new segment is written in NewSegmentsVersion")
	}
}

// delSet draws a delete set of up to `deletes` symbolic offsets.
func delSet() (map[int64]struct{}, []int64) {
	n := vrt.Choose("ndel", vrt.Bound("deletes", 2)+1)
	set := map[int64]struct{}{}
	var offs []int64
	for i := 0; i < n; i++ {
		o := vrt.Int64("del")
		for _, x := range offs {
			vrt.Assume(x != o)
		}
		offs = append(offs, o)
		set[o] = struct{}{}
	}
	return set, offs
}

func inSet(offs []int64, o int64) bool {
	r := false
	for _, x := range offs {
		r = vrt.Or(r, x == o)
	}
	return r
}

// Delete: one Delete call with an arbitrary offset set (live, dead, unassigned,
// negative, spanning segments) from an arbitrary directory.
func Delete() {
	p := setup()
	p.opts.Version.NewSegmentsVersion = verOpt("newver")
	p.opts.Version.KeepRewriteVersion = vrt.Choose("keepver", 2) == 1
	// session mode 1: AutoSync on and every segment read before the delete
	mode := vrt.Choose("session", 2)
	p.opts.AutoSync = mode == 1
	lg := open(p)
	live := p.l.Live()
	if mode == 1 {
		// every segment has been read (indexes and data files loaded) before the delete
		kit.Observe(lg, live, p.l.Next, "before Delete")
		vrt.Reach("read-before-delete")
	}
	set, offs := delSet()
	deleted, size, err := lg.Delete(set)
	if len(offs) == 0 {
		vrt.Reach("empty-set")
		vrt.Assert(err == nil && len(deleted) == 0 && size == 0, "an empty set is a no-op")
	}
	neg := false
	for _, o := range offs {
		if o < 0 {
			neg = true
		}
	}
	var want []kit.Rec
	if neg {
		vrt.Reach("negative-offset")
		vrt.Assert(vrt.ErrIs(err, klevdb.ErrInvalidOffset), "relative (negative) offsets are rejected with ErrInvalidOffset")
		vrt.Assert(len(deleted) == 0 && size == 0, "a rejected Delete deletes nothing")
		want = live
	} else {
		if err != nil {
			// an error is allowed only when nothing is deleted (e.g. every requested offset
			// lies before the first segment)
			vrt.Reach("delete-error")
			vrt.Assert(len(deleted) == 0 && size == 0, "a failed Delete reports nothing deleted")
		}
		// every returned message was live, was requested, has its full content
		prevOff := int64(-1)
		for _, dm := range deleted {
			vrt.Assert(dm.Offset > prevOff, "deleted messages are reported once, in offset order")
			prevOff = dm.Offset
			vrt.Assert(inSet(offs, dm.Offset), "a deleted message was requested")
			i := kit.LowerBound(live, dm.Offset)
			vrt.Assert(i < len(live) && live[i].Off == dm.Offset, "a deleted message was live")
			if i < len(live) {
				vrt.Assert(kit.Same(dm, live[i]), "a deleted message is reported with its full original content")
			}
		}
		// size = sum of the storage sizes in the version of the segment that held them
		wantSize := int64(0)
		segOf := -1
		for _, dm := range deleted {
			for si, s := range p.l.Segs {
				for _, r := range s.Recs {
					if r.Off == dm.Offset {
						wantSize += int64(kit.RecordSize(s.V1, len(r.Key), len(r.Val)) + kit.ItemSize(p.l.Times, p.l.Keys))
						vrt.Assert(segOf == -1 || segOf == si, "one Delete call removes messages of one segment only")
						segOf = si
					}
				}
			}
		}
		vrt.Assert(size == wantSize, "the returned size is the sum of the storage sizes of the deleted messages")
		// completeness within the target segment: requested live messages of the segment
		// holding the lowest requested offset are deleted when that offset is live
		for _, r := range live {
			gone := false
			for _, dm := range deleted {
				gone = vrt.Or(gone, dm.Offset == r.Off)
			}
			if !gone {
				want = append(want, r)
			}
		}
		if len(deleted) > 0 {
			vrt.Reach("deleted-some")
			s := p.l.Segs[segOf]
			left := len(s.Recs) - len(deleted)
			head := segOf == len(p.l.Segs)-1
			switch {
			case left == 0 && head:
				vrt.Reach("head-emptied")
			case left == 0:
				vrt.Reach("reader-segment-emptied")
			case deleted[0].Offset == s.Recs[0].Off && head:
				vrt.Reach("head-rebased")
			case deleted[0].Offset == s.Recs[0].Off:
				vrt.Reach("reader-segment-rebased")
			case head && deleted[len(deleted)-1].Offset == s.Recs[len(s.Recs)-1].Off:
				vrt.Reach("head-tail-deleted")
			}
		}
		if len(offs) > 0 && err == nil {
			lowest := offs[0]
			for _, o := range offs {
				if o < lowest {
					lowest = o
				}
			}
			i := kit.LowerBound(live, lowest)
			if i < len(live) && live[i].Off == lowest {
				found := false
				for _, dm := range deleted {
					found = vrt.Or(found, dm.Offset == lowest)
				}
				vrt.Assert(found, "the lowest requested offset, if live, is deleted")
			}
		}
	}
	kit.Observe(lg, want, p.l.Next, "after Delete")
	// deleting again deletes nothing
	if len(offs) > 0 && !neg && len(deleted) > 0 {
		again, size2, _ := lg.Delete(set)
		rest := false
		for _, o := range offs {
			i := kit.LowerBound(want, o)
			if i < len(want) && want[i].Off == o {
				rest = true
			}
		}
		if !rest {
			vrt.Assert(len(again) == 0 && size2 == 0, "deleting again deletes nothing")
			kit.Observe(lg, want, p.l.Next, "after deleting again")
		}
	}
	d := closeAndDecode(p, lg, want, p.l.Next, "after Delete+Close")
	// a rewritten segment keeps its version iff KeepRewriteVersion, else it is in NewSegmentsVersion
	if !neg && len(deleted) > 0 {
		var src *kit.Seg
		for si := range p.l.Segs {
			for _, r := range p.l.Segs[si].Recs {
				if r.Off == deleted[0].Offset {
					src = &p.l.Segs[si]
				}
			}
		}
		if src != nil && len(src.Recs) > len(deleted) {
			// the survivors of the rewritten segment: find the decoded segment that holds the first of them
			var first int64 = -1
			for _, r := range src.Recs {
				gone := false
				for _, dm := range deleted {
					if dm.Offset == r.Off {
						gone = true
					}
				}
				if !gone {
					first = r.Off
					break
				}
			}
			for _, ds := range d.Segs {
				if len(ds.Recs) > 0 && ds.Recs[0].Off == first {
					vrt.Reach("rewritten-segment-version")
					wantV1 := p.opts.Version.NewSegmentsVersion == klevdb.V1
					if p.opts.Version.KeepRewriteVersion {
						wantV1 = src.V1
					}
					vrt.Assert(ds.V1 == wantV1, "a rewritten segment keeps its version iff KeepRewriteVersion, otherwise it is written in NewSegmentsVersion")
				}
			}
		}
	}
}

// DeleteMulti over a set of live offsets (possibly spanning segments) removes all of them.
func DeleteMulti() {
	p := setup()
	lg := open(p)
	live := p.l.Live()
	vrt.Assume(len(live) > 0)
	set := map[int64]struct{}{}
	var picked []int
	for i := range live {
		if vrt.Choose("pick", 2) == 1 {
			set[live[i].Off] = struct{}{}
			picked = append(picked, i)
		}
	}
	vrt.Assume(len(picked) > 0)
	deleted, size, err := klevdb.DeleteMulti(context.Background(), lg, set, func(context.Context) error { return nil })
	vrt.Assert(err == nil, "DeleteMulti succeeds")
	vrt.Assert(len(deleted) == len(picked), "DeleteMulti over live offsets removes all of them")
	wantSize := int64(0)
	var want []kit.Rec
	k := 0
	for si, s := range p.l.Segs {
		_ = si
		for _, r := range s.Recs {
			if _, ok := set[r.Off]; ok {
				wantSize += int64(kit.RecordSize(s.V1, len(r.Key), len(r.Val)) + kit.ItemSize(p.l.Times, p.l.Keys))
				if k < len(deleted) {
					vrt.Assert(kit.Same(deleted[k], r), "DeleteMulti reports the deleted messages with their content, in offset order")
				}
				k++
			} else {
				want = append(want, r)
			}
		}
	}
	vrt.Assert(size == wantSize, "DeleteMulti: size is additive")
	if len(picked) == len(live) {
		vrt.Reach("everything-deleted")
	}
	kit.Observe(lg, want, p.l.Next, "after DeleteMulti")
	closeAndDecode(p, lg, want, p.l.Next, "after DeleteMulti+Close")
	vrt.Reach("deletemulti")
}

// Reopen: Open with any mix of Check / Recover / version options, read-write or
// read-only; the log is unchanged and the versions are the requested ones.
func Reopen() {
	p := setup()
	p.opts.Check = vrt.Choose("check", 2) == 1
	p.opts.Recover = vrt.Choose("recover", 2) == 1
	p.opts.Readonly = vrt.Choose("readonly", 2) == 1
	p.opts.Version.NewSegmentsVersion = verOpt("newver")
	p.opts.Version.EagerVersionMigrate = vrt.Choose("eager", 2) == 1
	lg := open(p)
	live := p.l.Live()
	if vrt.Choose("statfirst", 2) == 1 {
		// Stat is a query like any other: it must work before any other call has touched the segments
		st, err := lg.Stat()
		vrt.Assert(err == nil, "Stat right after reopen: no error")
		vrt.Assert(st.Messages == len(live) && st.Segments == len(p.l.Segs), "Stat right after reopen: live messages and segments")
		vrt.Reach("stat-first")
	}
	kit.Observe(lg, live, p.l.Next, "after reopen")
	d := closeAndDecode(p, lg, live, p.l.Next, "after reopen+Close")
	if p.opts.Version.EagerVersionMigrate && !p.opts.Readonly {
		vrt.Reach("eager-migrate")
		for _, s := range d.Segs {
			if len(s.Recs) > 0 {
				vrt.Assert(s.V1 == (p.opts.Version.NewSegmentsVersion == klevdb.V1), "after an eager migration every non-empty segment is in NewSegmentsVersion")
			}
		}
	}
	if p.opts.Readonly {
		vrt.Reach("readonly")
	}
}

// Migrate: the package-level Migrate to either version, twice.
func Migrate() {
	p := setup()
	target := verOpt("target")
	v1 := target == klevdb.V1
	err := klevdb.Migrate(p.l.Dir, p.opts, target)
	vrt.Assert(err == nil, "Migrate succeeds")
	live := p.l.Live()
	d := kit.DecodeDir(p.l.Dir, p.l.Times, p.l.Keys, p.monotone, "after Migrate")
	kit.SameLog(d, live, p.l.Next, "after Migrate")
	for _, s := range d.Segs {
		if len(s.Recs) > 0 {
			vrt.Assert(s.V1 == v1, "after Migrate every non-empty segment is in the target version")
		}
	}
	ev := vrt.FSEvents()
	err = klevdb.Migrate(p.l.Dir, p.opts, target)
	vrt.Assert(err == nil, "second Migrate succeeds")
	vrt.Assert(vrt.FSEvents() == ev, "migrating twice is the same as once: the second run changes nothing")
	lg := open(p)
	kit.Observe(lg, live, p.l.Next, "open after Migrate")
	vrt.Assert(lg.Close() == nil, "Close")
	vrt.Reach("migrate")
}
