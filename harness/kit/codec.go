//go:build verif

// Package kit: reference codec of the documented on-disk layouts, symbolic
// well-formed log directories (representation invariant R of DESIGN §3.2) and
// the abstract-log specifications shared by the harnesses. Written from the
// format description; it does not call klevdb's writers.
package kit

import (
	"encoding/binary"

	"github.com/klev-dev/klevdb/internal/zzverif/vrt"
)

var trailer = []byte{0xDE, 0xAD, 0xBE, 0xEF, 0xFE, 0xED, 0xFA, 0xCE}

// LogHeader is the 8-byte file header of a V2 log file (V1 files have none).
func LogHeader(v1 bool) []byte {
	if v1 {
		return nil
	}
	return []byte{0xFF, 'k', 'l', 'e', 'v', 's', 1, 0}
}

// IndexHeader is the 8-byte file header of a V2 index file (V1: none).
func IndexHeader(v1 bool, times, keys bool) []byte {
	if v1 {
		return nil
	}
	var p byte
	if times {
		p |= 1
	}
	if keys {
		p |= 2
	}
	return []byte{0xFF, 'k', 'l', 'e', 'v', 'i', 1, p}
}

func put64(b []byte, v uint64) { binary.BigEndian.PutUint64(b, v) }
func put32(b []byte, v uint32) { binary.BigEndian.PutUint32(b, v) }

// EncodeRecord renders one record in the documented V1 or V2 layout.
func EncodeRecord(v1 bool, off, us int64, key, val []byte) []byte {
	if v1 {
		// offset(8) micros(8) keylen(4) vallen(4) crc32c(key|value)(4) key value
		b := make([]byte, 28+len(key)+len(val))
		put64(b[0:], uint64(off))
		put64(b[8:], uint64(us))
		put32(b[16:], uint32(len(key)))
		put32(b[20:], uint32(len(val)))
		copy(b[28:], key)
		copy(b[28+len(key):], val)
		put32(b[24:], vrt.CRC32C(b[28:]))
		return b
	}
	// crc32c(everything after)(4) offset(8) micros(8) keylen(4) vallen(4) key value DEADBEEFFEEDFACE
	b := make([]byte, 36+len(key)+len(val))
	put64(b[4:], uint64(off))
	put64(b[12:], uint64(us))
	put32(b[20:], uint32(len(key)))
	put32(b[24:], uint32(len(val)))
	copy(b[28:], key)
	copy(b[28+len(key):], val)
	copy(b[28+len(key)+len(val):], trailer)
	put32(b[0:], vrt.CRC32C(b[4:]))
	return b
}

// RecordSize is the storage size of a record in the given version.
func RecordSize(v1 bool, klen, vlen int) int {
	if v1 {
		return 28 + klen + vlen
	}
	return 36 + klen + vlen
}

// ItemSize is the size of one index item.
func ItemSize(times, keys bool) int {
	n := 16
	if times {
		n += 8
	}
	if keys {
		n += 8
	}
	return n
}

// EncodeItem renders one index item: offset, position [, timestamp] [, keyhash].
func EncodeItem(times, keys bool, off, pos, ts int64, hash uint64) []byte {
	b := make([]byte, ItemSize(times, keys))
	put64(b[0:], uint64(off))
	put64(b[8:], uint64(pos))
	n := 16
	if times {
		put64(b[n:], uint64(ts))
		n += 8
	}
	if keys {
		put64(b[n:], hash)
	}
	return b
}

func MaxInt64(a, b int64) int64 { return vrt.IteInt64(a < b, b, a) }

// AssumeRecordInvalid assumes that the V2 record starting at position pos of the
// damaged bytes does not verify by accident: if any of its bytes (as framed by
// the damaged size fields) differs from the original, then the stored checksum
// differs from the checksum of the bytes it covers. Without it the solver would
// be free to pick a CRC32C collision (probability 2^-32 for real damage).
func AssumeRecordInvalid(dmg []byte, pos int, orig []byte) {
	if pos+28 > len(dmg) {
		return
	}
	ks := int(int32(binary.BigEndian.Uint32(dmg[pos+20:])))
	vs := int(int32(binary.BigEndian.Uint32(dmg[pos+24:])))
	if ks < 0 || vs < 0 || ks+vs > len(dmg) {
		return
	}
	end := pos + 36 + ks + vs
	if end > len(dmg) {
		return
	}
	stored := binary.BigEndian.Uint32(dmg[pos:])
	vrt.Assume(stored != vrt.CRC32C(dmg[pos+4:end]))
}

// AssumeRecordInvalidIfChanged: as AssumeRecordInvalid, but only when a byte of
// the original record at pos (original framing) or of the record as framed by
// the damaged size fields differs from the original bytes.
func AssumeRecordInvalidIfChanged(dmg []byte, pos int, orig []byte) {
	if pos+28 > len(dmg) {
		return
	}
	ks := int(int32(binary.BigEndian.Uint32(dmg[pos+20:])))
	vs := int(int32(binary.BigEndian.Uint32(dmg[pos+24:])))
	if ks < 0 || vs < 0 || ks+vs > len(dmg) {
		return
	}
	end := pos + 36 + ks + vs
	if end > len(dmg) {
		return
	}
	same := vrt.BytesEqual(dmg[pos:end], orig[pos:end])
	stored := binary.BigEndian.Uint32(dmg[pos:])
	vrt.Assume(vrt.Or(same, stored != vrt.CRC32C(dmg[pos+4:end])))
}
