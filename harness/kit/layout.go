//go:build verif

package kit

import (
	"time"

	"github.com/klev-dev/klevdb"
	"github.com/klev-dev/klevdb/internal/zzverif/vrt"
)

// Rec is one message of the abstract log.
type Rec struct {
	Off int64
	Us  int64
	Key []byte
	Val []byte
}

// Seg is one segment of a layout: base offset, format version, the records in
// its log file, whether its index file exists.
type Seg struct {
	Base  int64
	V1    bool
	Recs  []Rec
	Index bool
}

// Log is an abstract log (sigma) together with a layout (Lambda).
type Log struct {
	Segs  []Seg
	Next  int64
	Times bool
	Keys  bool
	Dir   string
}

// Shape fixes what must be concrete: records per segment (head last; the head
// may be empty), versions, key/value length profile.
type Shape struct {
	Counts  []int
	V1      []bool
	Profile int // 0: key 1 byte, value 1 byte; 1: alternating empty/1-byte; 2: all empty
	KeyLen  int // length of non-empty keys (default 1)
}

// Layouts enumerates the record-count vectors with at most maxSeg segments and
// maxRec records per segment: non-head segments non-empty, head possibly empty.
func Layouts(maxSeg, maxRec int) [][]int {
	var out [][]int
	var rec func(prefix []int, left int)
	rec = func(prefix []int, left int) {
		// head
		for h := 0; h <= maxRec; h++ {
			out = append(out, append(append([]int{}, prefix...), h))
		}
		if left > 1 {
			for n := 1; n <= maxRec; n++ {
				rec(append(append([]int{}, prefix...), n), left-1)
			}
		}
	}
	rec(nil, maxSeg)
	return out
}

func lens(profile, i, keyLen int) (int, int) {
	if keyLen == 0 {
		keyLen = 1
	}
	switch profile {
	case 0:
		return keyLen, 1
	case 1:
		if i%2 == 0 {
			return 0, 1
		}
		return keyLen, 0
	case 3: // keyed messages, value / tombstone alternating
		if i%2 == 0 {
			return keyLen, 1
		}
		return keyLen, 0
	case 4: // keyed messages, tombstone / value alternating
		if i%2 == 0 {
			return keyLen, 0
		}
		return keyLen, 1
	default:
		return 0, 0
	}
}

// Gen draws a symbolic well-formed log of the given shape: offsets strictly
// increasing and below 2^62, every base equal to the first offset of its
// segment (an empty head has base == Next), times arbitrary.
func Gen(sh Shape, times, keys bool) *Log {
	l := &Log{Times: times, Keys: keys}
	prev := int64(-1)
	k := 0
	for si, n := range sh.Counts {
		s := Seg{V1: sh.V1 != nil && sh.V1[si], Index: true}
		for i := 0; i < n; i++ {
			kl, vl := lens(sh.Profile, k, sh.KeyLen)
			k++
			r := Rec{Off: vrt.Int64("off"), Us: vrt.Int64("us"), Key: vrt.Bytes("key", kl), Val: vrt.Bytes("val", vl)}
			vrt.Assume(r.Off > prev)
			prev = r.Off
			s.Recs = append(s.Recs, r)
		}
		if n > 0 {
			s.Base = s.Recs[0].Off
		} else {
			// empty head: named after the next offset
			s.Base = vrt.Int64("next")
			vrt.Assume(s.Base > prev)
		}
		l.Segs = append(l.Segs, s)
	}
	head := l.Segs[len(l.Segs)-1]
	if len(head.Recs) > 0 {
		l.Next = head.Recs[len(head.Recs)-1].Off + 1
	} else {
		l.Next = head.Base
	}
	vrt.Assume(prev < 1<<62) // no offset wrap-around (outside every claim)
	vrt.Assume(l.Next < 1<<62)
	vrt.Assume(l.Segs[0].Base >= 0)
	return l
}

// MonotoneTimes assumes message times never decrease with offset and are not
// before 1970 (index timestamps are then the message times).
func (l *Log) MonotoneTimes() {
	prev := int64(0)
	for _, s := range l.Segs {
		for _, r := range s.Recs {
			vrt.Assume(r.Us >= prev)
			prev = r.Us
		}
	}
}

// Live returns the live messages in offset order.
func (l *Log) Live() []Rec {
	var out []Rec
	for _, s := range l.Segs {
		out = append(out, s.Recs...)
	}
	return out
}

// LogBytes renders the log file of a segment.
func (s *Seg) LogBytes() []byte {
	b := append([]byte{}, LogHeader(s.V1)...)
	for _, r := range s.Recs {
		b = append(b, EncodeRecord(s.V1, r.Off, r.Us, r.Key, r.Val)...)
	}
	return b
}

// IndexBytes renders the index derived from the log file; carry is the
// timestamp floor the first item starts from (0 when derived by reindexing).
func (s *Seg) IndexBytes(times, keys bool, carry int64) ([]byte, int64) {
	return s.IndexBytesVer(s.V1, times, keys, carry)
}

// IndexBytesVer renders the index in the given index-file version (positions
// always follow the version of the log file).
func (s *Seg) IndexBytesVer(idxV1 bool, times, keys bool, carry int64) ([]byte, int64) {
	b := append([]byte{}, IndexHeader(idxV1, times, keys)...)
	pos := int64(len(LogHeader(s.V1)))
	ts := carry
	for _, r := range s.Recs {
		if times {
			ts = MaxInt64(r.Us, ts)
		}
		var h uint64
		if keys {
			h = vrt.FNV64a(r.Key)
		}
		b = append(b, EncodeItem(times, keys, r.Off, pos, ts, h)...)
		pos += int64(RecordSize(s.V1, len(r.Key), len(r.Val)))
	}
	return b, ts
}

// Build writes the directory that encodes the log (reference encoder).
func (l *Log) Build(dirName string) string {
	dir := vrt.Dir(dirName)
	l.Dir = dir
	for i := range l.Segs {
		s := &l.Segs[i]
		vrt.WriteFile(vrt.SegName(dir, s.Base, ".log"), s.LogBytes())
		if s.Index {
			ib, _ := s.IndexBytes(l.Times, l.Keys, 0)
			vrt.WriteFile(vrt.SegName(dir, s.Base, ".index"), ib)
		}
	}
	return dir
}

func (l *Log) Options() klevdb.Options {
	return klevdb.Options{KeyIndex: l.Keys, TimeIndex: l.Times}
}

// Same compares a returned message with a record of the abstract log.
func Same(m klevdb.Message, r Rec) bool {
	return vrt.And(m.Offset == r.Off, m.Time.UnixMicro() == r.Us, vrt.BytesEqual(m.Key, r.Key), vrt.BytesEqual(m.Value, r.Val))
}

var _ = time.Now

// NumLayouts is the number of layouts for the bounds of this run.
func NumLayouts() int { return len(Layouts(vrt.Bound("segs", 2), vrt.Bound("recs", 2))) }

// ChooseShape picks the shape of this path: layout, version pattern, profile.
// Version patterns: 0 = all V2, 1 = all V1, 2 = V1 segments followed by a V2 head,
// 3 = V2 segments followed by a V1 head.
func ChooseShape() Shape {
	ls := Layouts(vrt.Bound("segs", 2), vrt.Bound("recs", 2))
	counts := ls[vrt.Choose("layout", len(ls))]
	if mm := vrt.Bound("maxmsgs", 0); mm > 0 {
		total := 0
		for _, c := range counts {
			total += c
		}
		vrt.Assume(total <= mm)
	}
	ver := vrt.Choose("ver", vrt.Bound("vers", 3))
	prof := vrt.Bound("prof_base", 0) + vrt.Choose("prof", vrt.Bound("profs", 2))
	v1 := make([]bool, len(counts))
	for i := range v1 {
		switch ver {
		case 1:
			v1[i] = true
		case 2:
			v1[i] = i < len(counts)-1
		case 3:
			v1[i] = i == len(counts)-1
		}
	}
	if len(counts) == 1 && ver >= 2 {
		vrt.Assume(false) // mixed patterns need two segments
	}
	return Shape{Counts: counts, V1: v1, Profile: prof}
}

// LowerBound is the index of the first live message with offset >= q.
func LowerBound(live []Rec, q int64) int {
	for i := range live {
		if live[i].Off >= q {
			return i
		}
	}
	return len(live)
}

// RealKeys: two pairs of distinct 8-byte keys with equal FNV-1a-64 hashes (real
// collisions) and an unrelated key; used where a counterexample must be
// reproducible natively.
var RealKeys = [][]byte{
	{0x21, 0x6c, 0xa7, 0x92, 0x9c, 0x97, 0x91, 0xca},
	{0x30, 0xde, 0x95, 0xee, 0x30, 0xd5, 0xce, 0x4a},
	{0x31, 0x62, 0xc9, 0x80, 0x05, 0xa6, 0x8d, 0x30},
	{0x8e, 0x62, 0xb6, 0x8d, 0x7d, 0xdd, 0xbe, 0xab},
	{1, 2, 3, 4, 5, 6, 7, 8},
}

// UseRealKeys replaces every non-empty key of the log by a key chosen (case
// split) among the first n entries of RealKeys. Call before Build.
func (l *Log) UseRealKeys(n int) {
	for si := range l.Segs {
		for ri := range l.Segs[si].Recs {
			if len(l.Segs[si].Recs[ri].Key) > 0 {
				l.Segs[si].Recs[ri].Key = append([]byte{}, RealKeys[vrt.Choose("rk", n)]...)
			}
		}
	}
}
