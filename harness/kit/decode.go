//go:build verif

package kit

import (
	"encoding/binary"

	"github.com/klev-dev/klevdb"
	"github.com/klev-dev/klevdb/internal/zzverif/vrt"
)

// DecodeDir parses a whole directory with the reference decoder, asserts the
// representation invariant R (DESIGN §3.2) and returns the log it encodes.
// what prefixes the assertion labels.
func DecodeDir(dir string, times, keys bool, monotone bool, what string) *Log {
	l := &Log{Times: times, Keys: keys, Dir: dir}
	bases := vrt.SegOffsets(dir)
	vrt.Assert(len(bases) > 0, what+": the directory holds at least one segment")
	nfiles := 0
	prevLast := int64(-1)
	for si, base := range bases {
		vrt.Assert(base > prevLast, what+": segment bases lie above every earlier offset")
		data, ok := vrt.ReadFile(vrt.SegName(dir, base, ".log"))
		vrt.Assert(ok, what+": log file readable")
		nfiles++
		s := Seg{Base: base}
		pos := 0
		if len(data) >= 8 && data[0] == 0xFF && data[1] == 'k' {
			vrt.Assert(vrt.BytesEqual(data[:8], LogHeader(false)), what+": V2 log file header")
			pos = 8
		} else {
			s.V1 = true
		}
		start := pos
		var positions []int
		for pos < len(data) {
			rec, n, good := decodeRecord(s.V1, data[pos:])
			vrt.Assert(good, what+": every record of a log file verifies (framing, CRC, trailer)")
			if !good {
				break
			}
			positions = append(positions, pos)
			s.Recs = append(s.Recs, rec)
			pos += n
		}
		_ = start
		for i, r := range s.Recs {
			vrt.Assert(r.Off > prevLast, what+": offsets strictly increase")
			if i == 0 {
				vrt.Assert(r.Off == base, what+": a segment is named after its first offset")
			}
			prevLast = r.Off
		}
		if si < len(bases)-1 {
			vrt.Assert(len(s.Recs) > 0, what+": only the head segment may be empty")
		}
		if len(s.Recs) == 0 {
			prevLast = base - 1
		}
		// index file: absent or exactly the derived index
		ib, iok := vrt.ReadFile(vrt.SegName(dir, base, ".index"))
		s.Index = iok
		if iok {
			nfiles++
			checkIndex(&s, ib, positions, times, keys, monotone, what)
		}
		l.Segs = append(l.Segs, s)
	}
	head := l.Segs[len(l.Segs)-1]
	if len(head.Recs) > 0 {
		l.Next = head.Recs[len(head.Recs)-1].Off + 1
	} else {
		l.Next = head.Base
	}
	names := vrt.List(dir)
	extra := 0
	for range names {
		extra++
	}
	if vrt.Exists(dir + "/.lock") {
		extra--
	}
	vrt.Assert(extra == nfiles, what+": no stray files (temporary or orphaned) in the directory")
	return l
}

func decodeRecord(v1 bool, b []byte) (Rec, int, bool) {
	if len(b) < 28 {
		return Rec{}, 0, false
	}
	var r Rec
	if v1 {
		r.Off = int64(binary.BigEndian.Uint64(b[0:]))
		r.Us = int64(binary.BigEndian.Uint64(b[8:]))
		ks := int(int32(binary.BigEndian.Uint32(b[16:])))
		vs := int(int32(binary.BigEndian.Uint32(b[20:])))
		if ks < 0 || vs < 0 || 28+ks+vs > len(b) {
			return r, 0, false
		}
		crc := binary.BigEndian.Uint32(b[24:])
		if crc != vrt.CRC32C(b[28:28+ks+vs]) {
			return r, 0, false
		}
		r.Key = b[28 : 28+ks]
		r.Val = b[28+ks : 28+ks+vs]
		return r, 28 + ks + vs, true
	}
	r.Off = int64(binary.BigEndian.Uint64(b[4:]))
	r.Us = int64(binary.BigEndian.Uint64(b[12:]))
	ks := int(int32(binary.BigEndian.Uint32(b[20:])))
	vs := int(int32(binary.BigEndian.Uint32(b[24:])))
	if ks < 0 || vs < 0 || 36+ks+vs > len(b) {
		return r, 0, false
	}
	n := 36 + ks + vs
	crc := binary.BigEndian.Uint32(b[0:])
	if crc != vrt.CRC32C(b[4:n]) {
		return r, 0, false
	}
	if !vrt.BytesEqual(b[n-8:n], trailer) {
		return r, 0, false
	}
	r.Key = b[28 : 28+ks]
	r.Val = b[28+ks : 28+ks+vs]
	return r, n, true
}

// checkIndex: the index file equals the index derived from the log file
// (offsets, positions, key hashes always; timestamps when times are monotone).
func checkIndex(s *Seg, ib []byte, positions []int, times, keys bool, monotone bool, what string) {
	pos := 0
	if len(ib) >= 8 && ib[0] == 0xFF && ib[1] == 'k' {
		vrt.Assert(vrt.BytesEqual(ib[:8], IndexHeader(false, times, keys)), what+": V2 index file header carries the configured parameters")
		pos = 8
	}
	isz := ItemSize(times, keys)
	vrt.Assert((len(ib)-pos)%isz == 0, what+": index size is a whole number of items")
	n := (len(ib) - pos) / isz
	vrt.Assert(n == len(s.Recs), what+": one index item per record of the log file")
	if n != len(s.Recs) {
		return
	}
	for i := 0; i < n; i++ {
		it := ib[pos+i*isz:]
		vrt.Assert(int64(binary.BigEndian.Uint64(it[0:])) == s.Recs[i].Off, what+": index item offset = record offset")
		vrt.Assert(int64(binary.BigEndian.Uint64(it[8:])) == int64(positions[i]), what+": index item position = record position in this log file")
		o := 16
		if times {
			if monotone {
				vrt.Assert(int64(binary.BigEndian.Uint64(it[o:])) == s.Recs[i].Us, what+": index timestamp = message time (non-decreasing times)")
			}
			o += 8
		}
		if keys {
			vrt.Assert(binary.BigEndian.Uint64(it[o:]) == vrt.FNV64a(s.Recs[i].Key), what+": index key hash = FNV-1a of the key")
		}
	}
}

// SameLog asserts that the decoded log d encodes exactly the expected messages.
func SameLog(d *Log, want []Rec, next int64, what string) {
	got := d.Live()
	vrt.Assert(len(got) == len(want), what+": the directory holds exactly the expected number of messages")
	if len(got) != len(want) {
		return
	}
	for i := range got {
		vrt.Assert(vrt.And(got[i].Off == want[i].Off, got[i].Us == want[i].Us, vrt.BytesEqual(got[i].Key, want[i].Key), vrt.BytesEqual(got[i].Val, want[i].Val)),
			what+": message on disk identical to the expected one")
	}
	vrt.Assert(d.Next >= next, what+": the directory does not forget assigned offsets")
	vrt.Assert(d.Next == next, what+": the directory encodes the expected next offset")
}

// Observe asserts that every read view of the open log equals the abstract log:
// full scan, Get of every live offset, NextOffset, Stat.Messages.
func Observe(lg klevdb.Log, want []Rec, next int64, what string) {
	q := klevdb.OffsetOldest
	seen := 0
	done := false
	for step := 0; step < len(want)+8; step++ {
		n, msgs, err := lg.Consume(q, 2)
		vrt.Assert(err == nil, what+": scan: no error")
		if err != nil {
			return
		}
		for _, m := range msgs {
			vrt.Assert(seen < len(want), what+": scan: nothing invented")
			if seen < len(want) {
				vrt.Assert(Same(m, want[seen]), what+": scan yields exactly the expected messages in offset order")
			}
			seen++
		}
		if n == next && len(msgs) == 0 {
			done = true
			break
		}
		vrt.Assert(n > q || q == klevdb.OffsetOldest, what+": scan progresses")
		q = n
	}
	vrt.Assert(done, what+": scan ends at NextOffset")
	vrt.Assert(seen == len(want), what+": scan: nothing lost")
	for i := range want {
		m, err := lg.Get(want[i].Off)
		vrt.Assert(err == nil && Same(m, want[i]), what+": Get of every live offset")
	}
	n, err := lg.NextOffset()
	vrt.Assert(err == nil && n == next, what+": NextOffset")
	st, err := lg.Stat()
	vrt.Assert(err == nil && st.Messages == len(want), what+": Stat.Messages = live messages")
}
