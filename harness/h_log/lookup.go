//go:build verif

package h_log

import (
	"time"

	"github.com/klev-dev/klevdb"
	"github.com/klev-dev/klevdb/internal/zzverif/kit"
	"github.com/klev-dev/klevdb/internal/zzverif/vrt"
)

func init() {
	vrt.Register("h_log.QueryTime", QueryTime)
	vrt.Register("h_log.QueryKey", QueryKey)
	vrt.Register("h_log.NoIndex", NoIndex)
	vrt.Register("h_log.QueryKeyReal", QueryKeyReal)
}

// realKeys: two pairs of distinct 8-byte keys with equal FNV-1a-64 hashes (real
// collisions, found by a distinguished-point search; re-verified on every run)
// and an unrelated key.
var realKeys = [][]byte{
	{0x21, 0x6c, 0xa7, 0x92, 0x9c, 0x97, 0x91, 0xca},
	{0x30, 0xde, 0x95, 0xee, 0x30, 0xd5, 0xce, 0x4a},
	{0x31, 0x62, 0xc9, 0x80, 0x05, 0xa6, 0x8d, 0x30},
	{0x8e, 0x62, 0xb6, 0x8d, 0x7d, 0xdd, 0xbe, 0xab},
	{1, 2, 3, 4, 5, 6, 7, 8},
}

// QueryKeyReal: as QueryKey, but the keys are drawn from a table that contains
// real FNV-1a-64 collision pairs, so that every counterexample is reproducible
// natively (the hashes are computed, not uninterpreted).
func QueryKeyReal() {
	vrt.Assert(vrt.FNV64a(realKeys[0]) == vrt.FNV64a(realKeys[1]) && vrt.FNV64a(realKeys[2]) == vrt.FNV64a(realKeys[3]), "the collision table holds real FNV-1a-64 collisions")
	sh := kit.ChooseShape()
	sh.KeyLen = 8
	l := kit.Gen(sh, false, true)
	nk := vrt.Bound("realkeys", 3)
	for si := range l.Segs {
		for ri := range l.Segs[si].Recs {
			k := realKeys[vrt.Choose("rk", nk)]
			if len(l.Segs[si].Recs[ri].Key) == 8 {
				// concrete key bytes: hashes are then computed with the real FNV-1a
				l.Segs[si].Recs[ri].Key = append([]byte{}, k...)
			}
		}
	}
	if vrt.Choose("noindex", 2) == 1 {
		for i := range l.Segs {
			l.Segs[i].Index = false
		}
	}
	l.Build("d")
	lg := openLog(l, l.Options())
	live := l.Live()
	k := realKeys[vrt.Choose("qk", nk)]
	m, err := lg.GetByKey(k)
	off, oerr := lg.OffsetByKey(k)
	last := -1
	collide := false
	for i := range live {
		if vrt.BytesEqual(live[i].Key, k) {
			last = i
		} else if len(live[i].Key) == 8 && vrt.FNV64a(live[i].Key) == vrt.FNV64a(k) {
			collide = true
		}
	}
	if collide {
		vrt.Reach("real-hash-collision")
	}
	if last < 0 {
		vrt.Assert(vrt.ErrIs(err, klevdb.ErrNotFound) && vrt.ErrIs(oerr, klevdb.ErrNotFound), "no live message with that key => ErrNotFound")
	} else {
		vrt.Assert(err == nil, "key present: no error (also when another key shares its hash)")
		if err == nil {
			vrt.Assert(kit.Same(m, live[last]), "GetByKey returns the live message with the greatest offset and exactly that key")
		}
		vrt.Assert(oerr == nil && off == live[last].Off, "OffsetByKey agrees")
	}
	var want []kit.Rec
	for i := range live {
		if vrt.BytesEqual(live[i].Key, k) {
			want = append(want, live[i])
		}
	}
	q := klevdb.OffsetOldest
	seen := 0
	for step := 0; step < len(live)+len(l.Segs)+2; step++ {
		next, msgs, cerr := lg.ConsumeByKey(k, q, 2)
		vrt.Assert(cerr == nil, "ConsumeByKey: no error")
		if cerr != nil {
			return
		}
		for _, x := range msgs {
			vrt.Assert(seen < len(want) && kit.Same(x, want[seen]), "ConsumeByKey: exactly the live messages with that key, in order, never one with another key")
			seen++
		}
		if len(msgs) == 0 {
			vrt.Assert(next == l.Next, "ConsumeByKey: ends at NextOffset")
			break
		}
		q = next
	}
	vrt.Assert(seen == len(want), "ConsumeByKey visits every live message with the key")
	vrt.Assert(lg.Close() == nil, "Close")
}

// QueryTime: GetByTime/OffsetByTime return the first live message at or after t (C10).
func QueryTime() {
	sh := kit.ChooseShape()
	l := kit.Gen(sh, true, vrt.Bound("keys", 0) == 1)
	l.MonotoneTimes()
	// index files: present (as written) or removed (rebuilt on open)
	if vrt.Choose("noindex", 2) == 1 {
		for i := range l.Segs {
			l.Segs[i].Index = false
		}
		vrt.Reach("index-rebuilt")
	}
	l.Build("d")
	lg := openLog(l, l.Options())
	reachLayout(l)
	live := l.Live()
	tq := vrt.Int64("t")
	t := time.UnixMicro(tq)
	m, err := lg.GetByTime(t)
	off, mt, oerr := lg.OffsetByTime(t)
	vrt.Assert((err == nil) == (oerr == nil), "GetByTime and OffsetByTime succeed together")
	if len(live) == 0 {
		vrt.Reach("no-live-message")
		vrt.Assert(vrt.ErrIs(err, klevdb.ErrNotFound) || vrt.ErrIs(err, klevdb.ErrInvalidOffset), "empty log: ErrNotFound or ErrInvalidOffset")
		return
	}
	idx := len(live)
	for i := range live {
		if live[i].Us >= tq {
			idx = i
			break
		}
	}
	if idx > 0 && idx < len(live) && live[idx].Us == live[idx-1].Us {
		vrt.Assert(false, "unreachable: first at-or-after cannot repeat its predecessor")
	}
	headEmpty := len(l.Segs[len(l.Segs)-1].Recs) == 0
	if headEmpty {
		vrt.Reach("empty-head")
	}
	if idx == len(live) {
		vrt.Reach("after-all")
		vrt.Assert(vrt.ErrIs(err, klevdb.ErrNotFound), "every live message is earlier => ErrNotFound")
		return
	}
	// equal timestamps straddling a segment boundary
	if idx+1 < len(live) && live[idx+1].Us == live[idx].Us {
		vrt.Reach("equal-run")
	}
	vrt.Assert(err == nil, "a live message at or after t exists: no error")
	if err == nil {
		vrt.Assert(kit.Same(m, live[idx]), "GetByTime returns the live message with the smallest offset whose time is >= t")
		vrt.Assert(off == live[idx].Off && mt.UnixMicro() == live[idx].Us, "OffsetByTime agrees")
	}
	vrt.Assert(lg.Close() == nil, "Close succeeds")
}

// QueryKey: GetByKey/OffsetByKey/ConsumeByKey with FNV as an uninterpreted
// function, so that hash collisions between different keys are free (C09).
func QueryKey() {
	sh := kit.ChooseShape()
	sh.KeyLen = vrt.Bound("keylen", 1)
	l := kit.Gen(sh, vrt.Bound("times", 1) == 1, true)
	if vrt.Choose("noindex", 2) == 1 {
		for i := range l.Segs {
			l.Segs[i].Index = false
		}
		vrt.Reach("index-rebuilt")
	}
	l.Build("d")
	lg := openLog(l, l.Options())
	live := l.Live()
	var k []byte
	switch vrt.Choose("qkey", 3) {
	case 0:
		k = nil
	case 1:
		k = []byte{}
	default:
		k = vrt.Bytes("qk", sh.KeyLen)
	}
	// at most two distinct keys per hash class (so that a model can be realised
	// with real collision pairs), stated as an assumption of the claim
	m, err := lg.GetByKey(k)
	off, oerr := lg.OffsetByKey(k)
	last := -1
	collide := false
	for i := range live {
		if vrt.BytesEqual(live[i].Key, k) {
			last = i
		} else if len(live[i].Key) == len(k) && vrt.FNV64a(live[i].Key) == vrt.FNV64a(k) {
			collide = true
		}
	}
	if collide {
		vrt.Reach("uf:hash-collision")
	}
	if last < 0 {
		vrt.Reach("absent")
		vrt.Assert(vrt.ErrIs(err, klevdb.ErrNotFound), "no live message with that key => ErrNotFound")
		vrt.Assert(vrt.ErrIs(oerr, klevdb.ErrNotFound), "OffsetByKey: ErrNotFound")
	} else {
		vrt.Reach("present")
		if len(k) == 0 {
			vrt.Reach("empty-key-present")
		}
		vrt.Assert(err == nil, "key present: no error")
		if err == nil {
			vrt.Assert(kit.Same(m, live[last]), "GetByKey returns the live message with the greatest offset and that key")
		}
		vrt.Assert(oerr == nil && off == live[last].Off, "OffsetByKey agrees")
	}
	// ConsumeByKey cursor
	max := 1 + vrt.Choose("max", 2)
	q := klevdb.OffsetOldest
	var want []kit.Rec
	for i := range live {
		if vrt.BytesEqual(live[i].Key, k) {
			want = append(want, live[i])
		}
	}
	seen := 0
	done := false
	for step := 0; step < len(live)+len(l.Segs)+2; step++ {
		next, msgs, cerr := lg.ConsumeByKey(k, q, int64(max))
		vrt.Assert(cerr == nil, "ConsumeByKey: no error")
		if cerr != nil {
			return
		}
		vrt.Assert(len(msgs) <= max, "ConsumeByKey: at most maxCount")
		for _, x := range msgs {
			vrt.Assert(seen < len(want), "ConsumeByKey: never a message with another key / none invented")
			if seen < len(want) {
				vrt.Assert(kit.Same(x, want[seen]), "ConsumeByKey: exactly the live messages with that key, in order")
			}
			seen++
		}
		if len(msgs) == 0 {
			vrt.Assert(next == l.Next, "ConsumeByKey: empty result ends at NextOffset")
			done = true
			break
		}
		vrt.Assert(next == msgs[len(msgs)-1].Offset+1, "ConsumeByKey: next = last + 1")
		q = next
	}
	// an arbitrary absolute cursor (e.g. one saved before older segments were trimmed)
	cq := vrt.Int64("cq")
	vrt.Assume(cq >= 0 && cq <= l.Next)
	var cnext int64
	var cmsgs []klevdb.Message
	var cerr error
	if vrt.Bound("cursor_check", 0) == 1 {
		cnext, cmsgs, cerr = lg.ConsumeByKey(k, cq, int64(max))
		vrt.Assert(cerr == nil, "ConsumeByKey from any offset <= NextOffset: no error")
	}
	if cerr == nil && vrt.Bound("cursor_check", 0) == 1 {
		var from []kit.Rec
		for i := range want {
			if want[i].Off >= cq {
				from = append(from, want[i])
			}
		}
		vrt.Assert(len(cmsgs) <= len(from), "ConsumeByKey from an offset: only live messages with the key at or after it")
		for j, x := range cmsgs {
			if j < len(from) {
				vrt.Assert(kit.Same(x, from[j]), "ConsumeByKey from an offset: exactly the live messages with the key at or after it, in order")
			}
		}
		if len(cmsgs) == 0 {
			vrt.Assert(len(from) == 0 && cnext == l.Next, "ConsumeByKey: empty only if no such message is left; then next = NextOffset")
		}
		if cq < l.Segs[0].Base {
			vrt.Reach("cursor-before-first-segment")
		}
	}
	vrt.Assert(done, "ConsumeByKey cursor terminates")
	vrt.Assert(seen == len(want), "ConsumeByKey visits every live message with the key")
	n, msgs, nerr := lg.ConsumeByKey(k, klevdb.OffsetNewest, 1)
	vrt.Assert(nerr == nil && len(msgs) == 0 && n == l.Next, "ConsumeByKey(OffsetNewest) = (NextOffset, none)")
	vrt.Assert(lg.Close() == nil, "Close succeeds")
}

// NoIndex: without the key/time index the lookups fail with ErrNoIndex.
func NoIndex() {
	sh := kit.ChooseShape()
	l := kit.Gen(sh, false, false)
	l.Build("d")
	lg := openLog(l, l.Options())
	k := vrt.Bytes("qk", 1)
	_, err := lg.GetByKey(k)
	vrt.Assert(vrt.ErrIs(err, klevdb.ErrNoIndex), "GetByKey without key index => ErrNoIndex")
	_, err = lg.OffsetByKey(k)
	vrt.Assert(vrt.ErrIs(err, klevdb.ErrNoIndex), "OffsetByKey without key index => ErrNoIndex")
	_, _, err = lg.ConsumeByKey(k, klevdb.OffsetOldest, 1)
	vrt.Assert(vrt.ErrIs(err, klevdb.ErrNoIndex), "ConsumeByKey without key index => ErrNoIndex")
	t := time.UnixMicro(vrt.Int64("t"))
	_, err = lg.GetByTime(t)
	vrt.Assert(vrt.ErrIs(err, klevdb.ErrNoIndex), "GetByTime without time index => ErrNoIndex")
	_, _, err = lg.OffsetByTime(t)
	vrt.Assert(vrt.ErrIs(err, klevdb.ErrNoIndex), "OffsetByTime without time index => ErrNoIndex")
	vrt.Reach("noindex")
}
