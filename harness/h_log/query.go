//go:build verif

// Package h_log: tier-B harnesses — the real klevdb.Open and Log methods run on
// an arbitrary well-formed directory (symbolic contents, offsets, times).
package h_log

import (
	"github.com/klev-dev/klevdb"
	"github.com/klev-dev/klevdb/internal/zzverif/kit"
	"github.com/klev-dev/klevdb/internal/zzverif/vrt"
)

func init() {
	vrt.Register("h_log.QueryConsume", QueryConsume)
	vrt.Register("h_log.QueryGet", QueryGet)
	vrt.Register("h_log.Cursor", Cursor)
	vrt.Register("h_log.QueryStat", QueryStat)
}

// QueryStat: Stat reports exactly the number of live messages and the total
// size of all segment files; NextOffset is one more than the largest offset (C13, C02).
func QueryStat() {
	sh := kit.ChooseShape()
	times, keys := vrt.Choose("times", 2) == 1, vrt.Choose("keys", 2) == 1
	l := kit.Gen(sh, times, keys)
	l.Build("d")
	ro := vrt.Choose("readonly", 2) == 1
	opts := l.Options()
	opts.Readonly = ro
	lg := openLog(l, opts)
	reachLayout(l)
	st, err := lg.Stat()
	vrt.Assert(err == nil, "Stat: no error")
	total := int64(0)
	for i := range l.Segs {
		ib, _ := l.Segs[i].IndexBytes(times, keys, 0)
		total += int64(len(l.Segs[i].LogBytes()) + len(ib))
	}
	if head := l.Segs[len(l.Segs)-1]; head.V1 && len(head.Recs) == 0 && !ro {
		// an empty V1 head is a zero-length file: opening it read-write writes the
		// file headers of the configured (V2) version into the log and the index
		total += 16
		vrt.Reach("empty-v1-head-gets-v2-headers")
	}
	vrt.Assert(st.Messages == len(l.Live()), "Stat.Messages = number of live messages")
	vrt.Assert(st.Size == total, "Stat.Size = total size of all segment files")
	vrt.Assert(st.Segments == len(l.Segs), "Stat.Segments = number of segments")
	next, err := lg.NextOffset()
	vrt.Assert(err == nil && next == l.Next, "NextOffset = one more than the largest assigned offset")
	m := klevdb.Message{Key: vrt.Bytes("k", 2), Value: vrt.Bytes("v", 3)}
	vrt.Assert(lg.Size(m) == int64(kit.RecordSize(false, 2, 3)+kit.ItemSize(times, keys)), "Size(m) = V2 record size + index item size")
	vrt.Assert(lg.Close() == nil, "Close succeeds")
	vrt.Reach("stat")
}

func openLog(l *kit.Log, opts klevdb.Options) klevdb.Log {
	lg, err := klevdb.Open(l.Dir, opts)
	vrt.Assert(err == nil, "Open succeeds on a well-formed directory")
	if err != nil {
		vrt.Assume(false)
	}
	return lg
}

func reachLayout(l *kit.Log) {
	head := l.Segs[len(l.Segs)-1]
	if len(head.Recs) == 0 {
		if len(l.Segs) > 1 {
			vrt.Reach("empty-head-with-older-segments")
		} else {
			vrt.Reach("single-empty-segment")
		}
	}
	if len(l.Segs) > 1 {
		vrt.Reach("multi-segment")
	}
}

// QueryConsume: Consume(q, max) against the cursor specification (C03).
func QueryConsume() {
	sh := kit.ChooseShape()
	l := kit.Gen(sh, true, true)
	l.Build("d")
	lg := openLog(l, l.Options())
	reachLayout(l)
	live := l.Live()
	q := vrt.Int64("q")
	max := 1 + vrt.Choose("max", len(live)+1)
	next, msgs, err := lg.Consume(q, int64(max))
	checkConsume(l, live, q, max, next, msgs, err)
	vrt.Assert(lg.Close() == nil, "Close succeeds")
}

func checkConsume(l *kit.Log, live []kit.Rec, q int64, max int, next int64, msgs []klevdb.Message, err error) {
	if q == klevdb.OffsetNewest {
		vrt.Reach("newest")
		vrt.Assert(err == nil, "newest: no error")
		vrt.Assert(len(msgs) == 0, "newest: no messages")
		vrt.Assert(next == l.Next, "newest: returns NextOffset")
		return
	}
	if q > l.Next {
		vrt.Reach("beyond-next")
		vrt.Assert(vrt.ErrIs(err, klevdb.ErrInvalidOffset), "offset beyond NextOffset => ErrInvalidOffset")
		return
	}
	vrt.Assert(err == nil, "offset <= NextOffset or relative: no error")
	if err != nil {
		return
	}
	vrt.Assert(len(msgs) <= max, "at most maxCount messages")
	i0 := kit.LowerBound(live, q)
	vrt.Assert(i0+len(msgs) <= len(live), "no more messages than are live from the lower bound")
	for j := range msgs {
		if i0+j < len(live) {
			vrt.Assert(kit.Same(msgs[j], live[i0+j]), "contiguous run of the live sequence from the first live offset >= q")
		}
	}
	if len(msgs) > 0 {
		vrt.Reach("non-empty")
		vrt.Assert(next == msgs[len(msgs)-1].Offset+1, "next = last returned offset + 1")
		return
	}
	vrt.Reach("empty-result")
	vrt.Assert(next <= l.Next, "empty: next <= NextOffset")
	if i0 < len(live) {
		vrt.Reach("empty-result-before-live")
		vrt.Assert(next <= live[i0].Off, "empty: never steps over a live message")
	} else {
		vrt.Assert(next == l.Next, "empty and caught up: next = NextOffset")
	}
	if q >= 0 {
		vrt.Assert(next >= q, "empty: next does not move backwards")
		vrt.Assert(next > q || q == l.Next, "empty: progress unless caught up")
	}
}

// Cursor: feeding next back from OffsetOldest visits every live message exactly once.
func Cursor() {
	sh := kit.ChooseShape()
	l := kit.Gen(sh, true, true)
	l.Build("d")
	lg := openLog(l, l.Options())
	live := l.Live()
	max := 1 + vrt.Choose("max", len(live)+1)
	q := klevdb.OffsetOldest
	seen := 0
	steps := len(live) + len(l.Segs) + 2
	done := false
	for k := 0; k < steps; k++ {
		next, msgs, err := lg.Consume(q, int64(max))
		vrt.Assert(err == nil, "cursor: no error")
		if err != nil {
			return
		}
		for _, m := range msgs {
			vrt.Assert(seen < len(live), "cursor: no message invented")
			if seen < len(live) {
				vrt.Assert(kit.Same(m, live[seen]), "cursor: messages in live order, none skipped")
			}
			seen++
		}
		if next == l.Next && len(msgs) == 0 || next == l.Next && seen == len(live) {
			done = true
			break
		}
		vrt.Assert(next > q || q == klevdb.OffsetOldest, "cursor: strictly progresses")
		q = next
	}
	vrt.Assert(done, "cursor: reaches NextOffset within live+segments+2 calls")
	vrt.Assert(seen == len(live), "cursor: every live message visited exactly once")
	vrt.Reach("cursor-done")
}

// QueryGet: Get(q) returns exactly the addressed message with the documented error classes (C04).
func QueryGet() {
	sh := kit.ChooseShape()
	l := kit.Gen(sh, true, true)
	l.Build("d")
	lg := openLog(l, l.Options())
	reachLayout(l)
	live := l.Live()
	q := vrt.Int64("q")
	m, err := lg.Get(q)
	switch {
	case q == klevdb.OffsetOldest || q == klevdb.OffsetNewest:
		if len(live) == 0 {
			vrt.Reach("relative-empty")
			vrt.Assert(vrt.ErrIs(err, klevdb.ErrInvalidOffset), "relative offset on an empty log => ErrInvalidOffset")
		} else if q == klevdb.OffsetOldest {
			vrt.Reach("oldest")
			vrt.Assert(err == nil && kit.Same(m, live[0]), "Get(OffsetOldest) = first live message")
		} else {
			vrt.Reach("newest")
			if vrt.Known("C04-newest-empty-head", len(l.Segs[len(l.Segs)-1].Recs) == 0) {
				vrt.Reach("known-newest-empty-head")
			}
			vrt.Assert(err == nil && kit.Same(m, live[len(live)-1]), "Get(OffsetNewest) = last live message")
		}
	case q < 0:
		// outside the statement: only "no panic"
	case q >= l.Next:
		vrt.Reach("unassigned")
		vrt.Assert(vrt.ErrIs(err, klevdb.ErrInvalidOffset), "unassigned offset => ErrInvalidOffset")
		vrt.Assert(!vrt.ErrIs(err, klevdb.ErrNotFound), "unassigned offset is not ErrNotFound")
	default:
		i := kit.LowerBound(live, q)
		if i < len(live) && live[i].Off == q {
			vrt.Reach("live")
			vrt.Assert(err == nil, "live offset: no error")
			vrt.Assert(kit.Same(m, live[i]), "live offset: exactly that message")
		} else {
			vrt.Reach("deleted")
			vrt.Assert(vrt.ErrIs(err, klevdb.ErrNotFound), "assigned but deleted offset => ErrNotFound")
			vrt.Assert(!vrt.ErrIs(err, klevdb.ErrInvalidOffset), "deleted offset is not ErrInvalidOffset")
		}
	}
	// agreement with Consume
	if q >= 0 {
		_, msgs, cerr := lg.Consume(q, 1)
		got := err == nil
		shown := cerr == nil && len(msgs) == 1 && msgs[0].Offset == q
		vrt.Assert(got == shown, "Get(q) succeeds iff Consume(q,1) returns a message with offset q")
		if got && shown {
			vrt.Assert(vrt.And(m.Offset == msgs[0].Offset, m.Time.UnixMicro() == msgs[0].Time.UnixMicro(),
				vrt.BytesEqual(m.Key, msgs[0].Key), vrt.BytesEqual(m.Value, msgs[0].Value)), "Get and Consume agree on the content")
		}
	}
	vrt.Assert(lg.Close() == nil, "Close succeeds")
}
