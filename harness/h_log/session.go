//go:build verif

package h_log

import (
	"time"

	"github.com/klev-dev/klevdb"
	"github.com/klev-dev/klevdb/internal/zzverif/kit"
	"github.com/klev-dev/klevdb/internal/zzverif/vrt"
)

func init() {
	vrt.Register("h_log.Session", Session)
}

// Session: the in-memory states that only exist between reopen points — two
// Publish calls (optionally rolling over) on an arbitrary directory, then the
// offset, key and time queries against the abstract log (C03, C04, C09, C10).
func Session() {
	sh := kit.ChooseShape()
	l := kit.Gen(sh, true, true)
	l.MonotoneTimes()
	l.Build("d")
	opts := l.Options()
	if vrt.Choose("roll", 2) == 1 {
		opts.Rollover = 1
	}
	lg := openLog(l, opts)
	live := append([]kit.Rec{}, l.Live()...)
	next := l.Next
	lastUs := int64(0)
	if len(live) > 0 {
		lastUs = live[len(live)-1].Us
	}
	if vrt.Choose("gc", 2) == 1 {
		// release unused resources, then read again, before publishing
		vrt.Assert(lg.GC(0) == nil, "GC")
		_, _, err := lg.Consume(klevdb.OffsetOldest, 1)
		vrt.Assert(err == nil, "Consume after GC")
		vrt.Reach("gc-then-read")
	}
	calls := 1 + vrt.Choose("calls", vrt.Bound("calls", 2))
	for c := 0; c < calls; c++ {
		us := vrt.Int64("pus")
		vrt.Assume(us >= lastUs) // equal times across Publish calls are allowed
		lastUs = us
		msgs := []klevdb.Message{{Time: time.UnixMicro(us), Key: vrt.Bytes("pkey", 1), Value: vrt.Bytes("pval", 1)}}
		vrt.Assume(!msgs[0].Time.IsZero())
		n, err := lg.Publish(msgs)
		vrt.Assert(err == nil && n == next+1, "Publish")
		live = append(live, kit.Rec{Off: next, Us: us, Key: msgs[0].Key, Val: msgs[0].Value})
		next++
	}
	view := vrt.Choose("view", 3)
	if view == 0 {
		sessionTime(lg, live)
	} else if view == 1 {
		sessionKey(lg, live)
	} else {
		kit.Observe(lg, live, next, "in session")
		q := vrt.Int64("q")
		cn, cmsgs, cerr := lg.Consume(q, 2)
		checkConsume(&kit.Log{Next: next}, live, q, 2, cn, cmsgs, cerr)
	}
	vrt.Assert(lg.Close() == nil, "Close")
	vrt.Reach("session")
}

func sessionTime(lg klevdb.Log, live []kit.Rec) {
	tq := vrt.Int64("t")
	m, err := lg.GetByTime(time.UnixMicro(tq))
	idx := len(live)
	for i := range live {
		if live[i].Us >= tq {
			idx = i
			break
		}
	}
	if idx == len(live) {
		vrt.Assert(vrt.ErrIs(err, klevdb.ErrNotFound), "in session: every live message is earlier => ErrNotFound")
	} else {
		if idx+1 < len(live) && live[idx+1].Us == live[idx].Us {
			vrt.Reach("equal-run")
		}
		vrt.Assert(err == nil, "in session: a live message at or after t exists")
		if err == nil {
			vrt.Assert(kit.Same(m, live[idx]), "in session: GetByTime returns the live message with the smallest offset whose time is >= t")
		}
	}
}

func sessionKey(lg klevdb.Log, live []kit.Rec) {
	k := vrt.Bytes("qk", 1)
	km, kerr := lg.GetByKey(k)
	last := -1
	for i := range live {
		if vrt.BytesEqual(live[i].Key, k) {
			last = i
		}
	}
	if last < 0 {
		vrt.Assert(vrt.ErrIs(kerr, klevdb.ErrNotFound), "in session: absent key => ErrNotFound")
	} else {
		vrt.Assert(kerr == nil && kit.Same(km, live[last]), "in session: GetByKey returns the last live message with the key")
	}
}
