#!/bin/bash
# usage: run1.sh <harness> <bounds> : build + run one harness, summarised
export GOFLAGS=-mod=mod GOPROXY=off
(cd /verif/engine && go build -o ../bin/gosym ./cmd/gosym) || exit 1
/verif/bin/gosym run -harness "$1" -b "$2" -v ${V:-1} 2>&1 | python3 -c "
import json,sys
txt=sys.stdin.read()
i=txt.index('{\n')
print(txt[:i][:3000])
r=json.loads(txt[i:])
print(r['harness'], 'paths',r['paths'],'done',r['paths_done'],'infeas',r['paths_infeasible'],'obl',r['obligations'],'disch',r['discharged'],'viol',len(r['violations'] or []),'unsup',r['unsupported'],'q',r['queries'],'solver_s',round(r['solver_s'],2),'wall',round(r['wall_s'],2), 'instrs',r['instrs'],'unkbr',r['unknown_branches'],'reach', r['reached'], r.get('error'))
for v in (r['violations'] or [])[:8]: print('   ',v['label'],'|',v['kind'],v['pos'],v.get('known'),[ (i['name'],i['value'] if i['value']<2**63 else i['value']-2**64) for i in v['inputs'] or []])
"
