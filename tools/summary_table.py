#!/usr/bin/env python3
"""Prints a per-property summary table (DESIGN.md §10.9) from the committed evidence files."""
import json, glob
print('| property | harnesses (jobs) | paths | obligations discharged | solver queries | natively replayed models | wall s (tier) |')
print('|---|---|---|---|---|---|---|')
for f in sorted(glob.glob('/verif/evidence/C*.json')):
    e=json.load(open(f)); c=e['coverage']
    hs=', '.join(f"{h.split('.',1)[1] if h.startswith('h_') else h} ({v['jobs']})" for h,v in sorted(c['harnesses'].items()))
    print(f"| {e['property_id']} | {hs} | {c['states']} | {c['discharged']}/{c['obligations']} | {c['queries']} | {c['traces_validated_against_impl']} | {round(e['wall_s'])} ({e['tier']}) |")
