#!/usr/bin/env python3
"""Writes /verif/seeded/<id>_<name>/meta.json from the agent's README, the verification log and the check logs."""
import json, os, re, glob
root='/verif/seeded'
verify={}
for l in open('/verif/out/seed_verify.log'):
    m=re.match(r'VERIFY (\w+)/(\w+): (.*)',l)
    if m: verify[(m.group(1),m.group(2))]=m.group(3).strip()
checks={}
for f in ['/verif/out/seed_check.log','/verif/out/seed_check2.log','/verif/out/seed_check3.log']:
    if not os.path.exists(f): continue
    for l in open(f):
        m=re.match(r'CHECK (\w+)/(\w+)(?: by (\w+))?: exit=(\d+) violations=(\d+)(.*)',l)
        if m:
            prop=m.group(3) or m.group(1)
            checks.setdefault((m.group(1),m.group(2)),{})[prop]={'exit':int(m.group(4)),'violations':int(m.group(5)),'note':m.group(6).strip()}
extra=json.load(open('/verif/seeded/notes.json')) if os.path.exists('/verif/seeded/notes.json') else {}
for d in sorted(glob.glob(root+'/*_m*')):
    n=os.path.basename(d); pid,name=n.split('_')
    readme=open(d+'/README.md').read() if os.path.exists(d+'/README.md') else ''
    meta={
      'property': pid, 'name': name,
      'summary': ' '.join(readme.split())[:1200],
      'verified_in_scratch_worktree': verify.get((pid,name),'not verified'),
      'how_verified': 'tools/seed_verify.sh: fresh worktree of /repo HEAD; demo passes unpatched; git apply patch.diff; go build; demo fails; whole suite (go test -vet=off -count=1 ./...) passes with the patch; worktree removed',
      'checks_run': checks.get((pid,name),{}),
      'detected_by': sorted(p for p,r in checks.get((pid,name),{}).items() if r['exit']==1 and r['violations']>0),
    }
    if n in extra: meta['notes']=extra[n]
    json.dump(meta,open(d+'/meta.json','w'),indent=1)
    print(n, meta['detected_by'] or 'NOT DETECTED', meta['verified_in_scratch_worktree'][:60])
