#!/bin/bash
# Differential run of the three solver back ends (z3 5.1.0 = z3-new, z3 4.8.12, cvc5 1.0)
# on one representative job per harness family. The encoding is the same; what is compared is
# the verdict structure: paths explored, infeasible paths, obligations met / discharged,
# violations, unknown answers, solver errors. Any difference is printed and the exit code is 1.
# Usage: [ONLY=regex] tools/solver_diff.sh [repo]      (writes out/sdiff/*.json; not a registered check)
cd "$(dirname "$0")/.." || exit 2
repo=${1:-/repo}
mkdir -p out/sdiff
jobs=(
 "h_index.IndexGet items=6,fix.n=6"
 "h_index.IndexTime items=6,fix.n=6"
 "h_index.IndexConsume items=6,fix.n=6"
 "h_index.SegmentGet segments=5,fix.n=4"
 "h_log.QueryGet segs=2,recs=2,vers=3,profs=2,fix.layout=8,fix.ver=2,fix.prof=1"
 "h_log.QueryConsume segs=2,recs=2,vers=3,profs=2,fix.layout=8,fix.ver=1,fix.prof=0"
 "h_log.QueryTime segs=2,recs=2,vers=3,profs=2,fix.layout=7,fix.ver=0,fix.prof=1"
 "h_log.QueryKey segs=2,recs=2,vers=3,profs=2,keylen=1,fix.layout=8,fix.ver=0,fix.prof=1"
 "h_codec.RoundTrip fix.v1=0,fix.klen=3,fix.vlen=4"
 "h_codec.Cross fix.v1=1,fix.klen=2,fix.vlen=0"
 "h_codec.IndexFormat items=3,fix.v1=0,fix.times=1,fix.keys=1"
 "h_recover.Truncated recs=2,profs=2,fix.v1=0,fix.n=1,fix.prof=1,fix.times=1,fix.keys=1"
 "h_recover.IndexDamage recs=2,profs=2,fix.v1=0,fix.n=1,fix.prof=0,fix.times=1,fix.keys=1,fix.kind=1"
 "h_damage.ReadTruncated recs=2,profs=1,alloc_cap=96,conc_cap=128,max_alloc=67108900,fix.n=1,fix.prof=0,fix.mem=0"
 "h_step.Publish segs=2,recs=1,vers=1,profs=1,paramsets=2,rmindex=1,batch=2,fix.layout=3,fix.ver=0,fix.prof=0,fix.params=0,fix.rmindex=0"
 "h_step.Delete segs=2,recs=2,vers=1,profs=1,paramsets=1,rmindex=1,deletes=1,fix.layout=8,fix.ver=0,fix.prof=0,fix.params=0,fix.rmindex=0,fix.session=0"
 "h_helpers.TrimCount segs=2,recs=2,vers=2,profs=1,fix.layout=8,fix.ver=0,fix.prof=0"
 "h_sync.NotifyWake waiters=1,publishers=1,preemptions=1,fix.close=0"
)
rc=0
for j in "${jobs[@]}"; do
  set -- $j
  h=$1; b=$2
  [[ -n "$ONLY" && ! "$h" =~ $ONLY ]] && continue
  for s in z3-new z3 cvc5; do
    timeout 900 ./bin/gosym run -harness "$h" -b "$b" -solver $s -repo "$repo" -out "out/sdiff/${h}_$s.json" >/dev/null 2>&1 &
  done
  wait
  python3 - "$h" <<'EOF' || rc=1
import json, sys
h = sys.argv[1]
keys = ['paths_done', 'paths_infeasible', 'obligations', 'discharged', 'unknown_obligations', 'unknown_branches', 'unsupported', 'solver_errors', 'timed_out']
rows = {}
for s in ['z3-new', 'z3', 'cvc5']:
    try:
        d = json.load(open(f'out/sdiff/{h}_{s}.json'))
    except Exception as e:
        print(f'{h}: {s}: no result ({e})'); sys.exit(1)
    r = {k: (len(d[k]) if isinstance(d.get(k), (list, dict)) else d.get(k)) for k in keys}
    r['violations'] = len(d.get('violations') or [])
    rows[s] = (r, d.get('queries'), round(d.get('solver_s', 0), 2))
ref = rows['z3-new'][0]
same = all(rows[s][0] == ref for s in rows)
print(f"{h}: {'AGREE' if same else 'DISAGREE'} {ref} queries/solver_s: " + ', '.join(f'{s}={rows[s][1]}/{rows[s][2]}' for s in rows))
if not same:
    for s in rows: print('   ', s, rows[s][0])
    sys.exit(1)
EOF
done
exit $rc
