#!/bin/bash
cd /verif
for t in C17/m3:C05 C03/m3:C03 C06/m3:C06; do
  m=${t%:*}; cp=${t#*:}; id=${m%/*}; n=${m#*/}
  ./tools/seed_check.sh $id $n $cp >> out/seed_check3.log 2>&1
done
