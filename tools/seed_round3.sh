#!/bin/bash
cd /verif
for t in C05/m1:C05 C05/m3:C05 C17/m3:C05 C11/m3:C05 C01/m3:C01 C03/m3:C03 C06/m3:C06 C12/m3:C12 C14/m3:C14 C18/m3:C18 C19/m1:C19 C20/m2:C20 C08/m3:C08; do
  m=${t%:*}; cp=${t#*:}; id=${m%/*}; n=${m#*/}
  grep -q "^CHECK $id/$n by $cp:" out/seed_check3.log 2>/dev/null && continue
  ./tools/seed_check.sh $id $n $cp >> out/seed_check3.log 2>&1
done
