#!/bin/bash
cd /verif
for t in C08/m1:C08 C08/m2:C08 C01/m1:C01 C02/m1:C02 C03/m2:C03 C04/m1:C05 C05/m1:C05 C06/m1:C06 C06/m2:C06 C07/m2:C07 C09/m1:C09 C09/m2:C09 C10/m2:C10 C11/m1:C11 C11/m2:C08 C12/m1:C08 C14/m1:C14 C14/m2:C14 C16/m2:C16 C17/m1:C17 C17/m2:C05 C18/m1:C18 C19/m1:C19 C20/m2:C20 C13/m2:C13; do
  m=${t%:*}; cp=${t#*:}; id=${m%/*}; n=${m#*/}
  grep -q "^CHECK $id/$n by $cp:" out/seed_check2.log 2>/dev/null && continue
  ./tools/seed_check.sh $id $n $cp >> out/seed_check2.log 2>&1
done
