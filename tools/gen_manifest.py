#!/usr/bin/env python3
"""Regenerates /verif/MANIFEST.json from the table below (claimed checks + not_applicable)."""
import json, os
here = os.path.dirname(os.path.dirname(os.path.abspath(__file__)))

CLAIMED = {
 "C01": ("one inductive step per state-changing call (Publish with rollover / empty batch / zero time, Delete with each structural outcome, reopen with every mix of Check/Recover/Readonly/version options, index files removed) from an arbitrary well-formed directory; after the call every read view and the directory decoded by the reference decoder equal the expected abstract log", "§4 C01, §3.5"),
 "C02": ("offset assertions of the step harnesses: Publish returns NextOffset+n and writes back dense offsets whatever the caller supplied; delete of the tail / of everything, optional close+reopen (Check/Recover), publish again never reuses an offset; NextOffset and Stat on arbitrary directories", "§4 C02"),
 "C03": ("pure searches (index.Consume, segment.Consume) for all item arrays within the bound, and Log.Consume / the cursor loop through the real Open on arbitrary well-formed directories (symbolic offsets, times, bytes; both format versions; empty head; holes)", "§4 C03"),
 "C04": ("index.Get / segment.Get for all arrays within the bound, and Log.Get with the full error taxonomy and agreement with Consume on arbitrary well-formed directories", "§4 C04"),
 "C05": ("crash points at every file-system mutating call of klevdb inside publish (with rollover), delete (every structural outcome), eager migration and Recover itself, torn appends with a symbolic prefix length, followed by the real Open(Recover): recovered content, agreement of all views, NextOffset, idempotence of Recover, append + Check; counterexamples are replayed natively on an instrumented build that dies at the same call", "§4 C05"),
 "C06": ("the same crash points under the tail-loss model: at the crash every file is cut to a symbolic length between its last fsynced length and its current length; everything acknowledged by Sync / AutoSync / Close survives Open(Recover)", "§4 C06"),
 "C07": ("Segment.Check / Segment.Recover on a head segment of valid records cut at a symbolic length, with one symbolic byte changed in any field, and with a truncated / changed / extended index; all four index configurations", "§4 C07"),
 "C08": ("PARTIAL: every pair of concurrent calls with at least one Publish or Delete (plus the read/read pairs that race on the lazy index rebuild) on small directories through the real Open, under a schedule variable with bounded preemptions at mutex/atomic/channel/file-system operations: both calls succeed, results are those of a sequential order, publishers get disjoint consecutive offsets, tailing readers see no gap; quick bound only (no thorough_cmd: the deeper configuration does not finish in 25 minutes). Data-race freedom (lockset), more than two concurrent calls and free-running mixes are NOT decided", "§4 C08, §10.6"),
 "C09": ("GetByKey / OffsetByKey / ConsumeByKey on arbitrary well-formed directories with FNV as an uninterpreted function (free collisions), present and rebuilt indexes", "§4 C09"),
 "C10": ("index.Time for all arrays within the bound, and GetByTime / OffsetByTime on arbitrary well-formed directories with non-decreasing times (equal runs across segment boundaries, empty head, rebuilt indexes)", "§4 C10"),
 "C11": ("after every step harness the reference decoder checks every segment's index file against the index derived from its log file; reopen with every removal pattern of index files, read-write and read-only, all four index configurations", "§4 C11"),
 "C12": ("Delete with arbitrary offset sets (live, dead, unassigned, negative, spanning segments) and DeleteMulti over live sets from arbitrary directories: returned messages, size, survivors, repeat, target segment; MinOffset independent of map order", "§4 C12"),
 "C13": ("real writer/readers (file and mmap) against the independent reference codec: round trip, byte-exact layout, back-to-back positions, Size, the four index layouts, Stat on arbitrary directories", "§4 C13"),
 "C14": ("both reader kinds and the whole Log read API on V2 files with a 1- or 8-byte overwrite at a symbolic position of any field, a zero-filled tail, or a cut at a symbolic length: error or exactly the published message; no panic; allocation bound", "§4 C14"),
 "C15": ("FindBy*/TrimBy*Multi (offset, count, size, age) on the real log opened on arbitrary directories, bounds symbolic", "§4 C15"),
 "C16": ("FindUpdates/FindDeletes/CompactUpdates*/CompactDeletes* on the real log over symbolic 1-byte keys with tombstones; latest value per key preserved, also for repeated/alternating rounds", "§4 C16"),
 "C17": ("Migrate (twice), EagerVersionMigrate, delete-by-rewrite with/without KeepRewriteVersion, publish with NewSegmentsVersion on single- and mixed-version directories", "§4 C17"),
 "C18": ("pkg/notify and the blocking wrapper (over a minimal sequential Log) under a schedule variable with bounded waiters / publishers / preemptions, optional Close and context cancellation: immediate return below NextOffset, no lost wake-up at quiescence, never woken for nothing, result consistent with Consume, closed / cancelled errors", "§4 C18, §10.6"),
 "C19": ("open/close/failed-open/publish sequences over three handles against the exclusion matrix on a flock model; read-only session equals read-write answers, ErrReadonly, log files untouched", "§4 C19"),
 "C20": ("Log.Backup and Backup(src,dst) into an empty directory and repeated after publish-only steps (with rollover), symbolic mtimes; backup passes Check and opens to the same log; source unchanged", "§4 C20"),
}

# properties whose thorough command ran clean (exit 0) on the unchanged tree within its budget;
# for the others no thorough_cmd is registered (absent => quick only)
THOROUGH_OK = set(open(os.path.join(here, "tools", "thorough_validated.txt")).read().split())

NOT_YET = "check not built yet in this session; to be replaced by a claim or by a final reason"
NA = {}

def main():
    props = [json.loads(l)["id"] for l in open(os.path.join(here, "properties.jsonl"))]
    checks = []
    for pid in props:
        if pid not in CLAIMED:
            continue
        note, ref = CLAIMED[pid]
        entry_thorough = {"thorough_cmd": f"./check {pid} thorough"} if pid in THOROUGH_OK else {}
        checks.append({
            "property_id": pid,
            "quick_cmd": f"./check {pid} quick",
            **entry_thorough,
            "evidence_file": f"/verif/evidence/{pid}.json",
            "replay_cmd_template": "./bin/gosym replay {path}",
            "engine": "gosym",
            "level_claimed": {
                "category": "model_checking",
                "text": "Bounded symbolic execution of the real go/ssa code of /repo's working tree: every assertion of the harnesses (and every implicit run-time check) is decided by z3 for all inputs within the stated bounds; a sat answer is replayed natively before it is reported. Not a proof beyond the bounds. Scope: " + note,
                "design_ref": "DESIGN.md " + ref,
            },
            "level_note": "trusted base: the gosym SSA->SMT-LIB encoder (checked on every run by replaying solver models of reach labels natively), z3 5.1.0 (the pre-installed z3-new CLI; /usr/bin/z3 4.8.12 and cvc5 selectable with the bound `solver` for cross-checks), the environment models named under stubs_used in the evidence (file system by its documented contract, CRC32C/FNV as uninterpreted functions, clock, flock); bounds in coverage.harnesses[*].bounds",
            "technique": ("symbolic execution of go/ssa + SMT (z3, QF_BV+UF) with the schedule as a case-split variable, bounded; schedule counterexamples re-executed concretely on the SSA" if pid in ("C08", "C18") else "symbolic execution of go/ssa + SMT (z3, QF_BV+UF), bounded; native replay of models"),
        })
    na = [{"property_id": p, "reason": NA.get(p, NOT_YET)} for p in props if p not in CLAIMED]
    m = {
        "version": 1,
        "setup_cmd": "./setup.sh",
        "hooks": {
            "guard": "verif",
            "enable": "harnesses are overlay files (//go:build verif) mapped to internal/zzverif/ by go/packages and `go test -overlay`; no source change in /repo is needed",
            "baseline_off_cmd": "cd /repo && go test -vet=off -count=1 ./...",
            "source_commits": [],
            "add_only": True,
        },
        "engines": [{
            "name": "gosym", "path": "/verif/engine", "serves_properties": [c["property_id"] for c in checks],
            "kind_free_text": "path-forking symbolic interpreter for go/ssa (DFS by re-execution, solver stack aligned with the decision prefix), bit-vector terms with hash-consing, one incremental `z3 -in` per worker, environment models (symfs, flock, clock, CRC/FNV as UF, ART), native replay via go test -overlay",
        }],
        "checks": checks,
        "not_applicable": na,
        "notes": "See DESIGN.md. Exit codes of ./check: 0 all obligations discharged within the bounds; 1 replay-confirmed violation (VIOLATION line); 2 inconclusive (unknown/timeout, unsupported construct, vacuity or translation-validation failure) - never reported as success.",
    }
    json.dump(m, open(os.path.join(here, "MANIFEST.json"), "w"), indent=1)
    print("claimed:", [c["property_id"] for c in checks], "not_applicable:", [x["property_id"] for x in na])

main()
