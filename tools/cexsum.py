#!/usr/bin/env python3
import json,glob,collections,sys
prop=sys.argv[1]
c=collections.Counter(); ex={}
for f in sorted(glob.glob(f'/verif/out/{prop}/cex-*.json')):
    r=json.load(open(f))
    key=(r['harness'],r['label'])
    c[key]+=1
    ex.setdefault(key,[]).append((f.split('/')[-1],{k[4:]:v for k,v in r['bounds'].items() if k.startswith('fix')},[(i['name'],i['value'] if i['value']<2**63 else i['value']-2**64) for i in r['inputs'] if not i['name'].startswith('env') and i['name'].split('!')[0] not in ('layout','ver','prof','params','rmindex','key','val','us')]))
for k,v in c.items():
    print(v,k)
    for e in ex[k][:int(sys.argv[2]) if len(sys.argv)>2 else 3]: print('    ',e)
