#!/bin/bash
# runs the relevant quick check against every seeded defect, sequentially (they patch /repo)
cd /verif
for d in seeded/*/; do
  n=$(basename $d); id=${n%_*}; name=${n#*_}
  grep -q "^CHECK $id/$name:" out/seed_check.log 2>/dev/null && continue
  ./tools/seed_check.sh $id $name >> out/seed_check.log 2>&1
done
