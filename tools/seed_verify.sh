#!/bin/bash
# usage: seed_verify.sh <prop-id> <mutant-name>   (reads /tmp/seed_<id>/out/<name>)
# Confirms a seeded defect in a scratch worktree: demo passes on the unchanged tree,
# fails with the patch, the whole suite passes with the patch. Prints a verdict line.
set -u
export GOFLAGS=-mod=mod GOPROXY=off
id=$1; name=$2
src=/verif/seeded/${id}_$name
wt=/tmp/sv_${id}_$name
[ -f $src/patch.diff ] || { echo "VERIFY $id/$name: no patch"; exit 2; }
git -C /repo worktree remove --force $wt >/dev/null 2>&1
git -C /repo worktree add -q --detach $wt HEAD || exit 2
place=$(head -5 $src/demo_test.go | grep -o 'place in: *[^ ]*' | head -1 | sed 's/place in: *//')
[ -z "$place" ] && place=.
cp $src/demo_test.go $wt/$place/zz_seed_demo_test.go
cd $wt
run_demo() { go test -vet=off -count=1 -timeout 300s ./$place/ -run 'Seed|Demo|C[0-9][0-9]|M[0-9]' 2>&1 | tail -40; }
d0=$(run_demo); echo "$d0" | grep -q "^ok" && r0=pass || r0=fail
if ! git apply $src/patch.diff 2>/dev/null; then echo "VERIFY $id/$name: patch does not apply"; cd /; git -C /repo worktree remove --force $wt; exit 2; fi
go build ./... >/dev/null 2>&1 && b=ok || b=fail
d1=$(run_demo); echo "$d1" | grep -q "^ok" && r1=pass || r1=fail
rm -f $wt/$place/zz_seed_demo_test.go
s1=$(go test -vet=off -count=1 ./... 2>&1 | grep -v "^ok\|no test files" | grep -v "/out/" | head -5); [ -z "$s1" ] && suite=pass || suite="fail: $s1"
echo "VERIFY $id/$name: build=$b demo_without=$r0 demo_with=$r1 suite_with=$suite"
cd /; git -C /repo worktree remove --force $wt
