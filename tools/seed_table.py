#!/usr/bin/env python3
"""Prints the markdown table of seeded changes (DESIGN.md §10.8) from seeded/*/meta.json."""
import json, glob, os, re
rows=[]
for d in sorted(glob.glob('/verif/seeded/*_m*')):
    m=json.load(open(d+'/meta.json'))
    what=m['summary']
    what=re.sub(r'^#+ *','',what)
    what=what[:230].replace('|','/')
    det=', '.join(m['detected_by']) or '— (not detected)'
    note=m.get('notes','')
    rows.append(f"| {m['property']}_{m['name']} | {what} | {det} | {note} |")
print('| seeded change | what it is (from the author\'s README) | caught by quick check of | note |')
print('|---|---|---|---|')
print('\n'.join(rows))
