#!/bin/bash
# usage: seed_check.sh <prop-id> <mutant-name> [check-prop]: applies the seeded patch to /repo, runs the quick check of
# check-prop (default: the mutant's own property), reverts /repo.
id=$1; name=$2; cp=${3:-$1}
src=/verif/seeded/${id}_$name
[ -d $src ] || src=/tmp/seed_$id/out/$name
cd /repo && git status --short | grep -v '^??' | head -1 | grep -q . && { echo "repo dirty"; exit 2; }
git -C /repo apply $src/patch.diff || { echo "CHECK $id/$name by $cp: patch does not apply"; exit 2; }
cd /verif && timeout 3000 ./check $cp quick > /verif/out/seedcheck_${id}_${name}_$cp.log 2>&1; rc=$?
git -C /repo checkout -- .
nv=$(grep -c '^VIOLATION' /verif/out/seedcheck_${id}_${name}_$cp.log)
echo "CHECK $id/$name by $cp: exit=$rc violations=$nv $(grep -m1 'INCONCLUSIVE' /verif/out/seedcheck_${id}_${name}_$cp.log | cut -c1-160)"
