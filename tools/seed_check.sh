#!/bin/bash
# usage: seed_check.sh <prop-id> <mutant-name> [extra check args]: applies the patch to /repo, runs the property's quick check, reverts.
id=$1; name=$2; shift 2
src=/tmp/seed_$id/out/$name
[ -d /verif/seeded/${id}_$name ] && src=/verif/seeded/${id}_$name
cd /repo && git status --short | grep -v '^??' | head -1 | grep -q . && { echo "repo dirty"; exit 2; }
git -C /repo apply $src/patch.diff || { echo "CHECK $id/$name: patch does not apply"; exit 2; }
cd /verif && timeout 2400 ./check $id quick "$@" > /verif/out/seedcheck_${id}_$name.log 2>&1; rc=$?
git -C /repo checkout -- . 
nv=$(grep -c '^VIOLATION' /verif/out/seedcheck_${id}_$name.log)
echo "CHECK $id/$name: exit=$rc violations=$nv $(grep -m1 'INCONCLUSIVE' /verif/out/seedcheck_${id}_$name.log | cut -c1-160)"
