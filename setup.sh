#!/bin/bash
# Offline build of the verification engine (MANIFEST.setup_cmd).
set -eu
cd "$(dirname "$0")"
export GOFLAGS=-mod=mod GOPROXY=off
unset GOSUMDB
mkdir -p bin out evidence
(cd engine && go build -o ../bin/gosym ./cmd/gosym)
# warm the build cache of the native replay package
./bin/gosym warm || true
echo "setup ok"
