// Package term implements hash-consed SMT terms over Bool and fixed-width
// bit-vectors (width <= 64) plus uninterpreted functions, with constant
// folding and a small set of algebraic simplifications.
package term

import (
	"fmt"
	"sort"
	"strings"
)

type Kind uint8

const (
	KConst Kind = iota
	KVar
	KNot
	KAnd
	KOr
	KIte
	KEq
	KAdd
	KSub
	KMul
	KUDiv
	KURem
	KSDiv
	KSRem
	KBAnd
	KBOr
	KBXor
	KBNot
	KNeg
	KShl
	KLShr
	KAShr
	KUlt
	KUle
	KSlt
	KSle
	KConcat
	KExtract
	KZExt
	KSExt
	KApp
)

var kindNames = map[Kind]string{
	KNot: "not", KAnd: "and", KOr: "or", KIte: "ite", KEq: "=",
	KAdd: "bvadd", KSub: "bvsub", KMul: "bvmul", KUDiv: "bvudiv", KURem: "bvurem",
	KSDiv: "bvsdiv", KSRem: "bvsrem", KBAnd: "bvand", KBOr: "bvor", KBXor: "bvxor",
	KBNot: "bvnot", KNeg: "bvneg", KShl: "bvshl", KLShr: "bvlshr", KAShr: "bvashr",
	KUlt: "bvult", KUle: "bvule", KSlt: "bvslt", KSle: "bvsle", KConcat: "concat",
}

// T is an immutable hash-consed term. W == 0 means Bool, otherwise a
// bit-vector of width W (1..64).
type T struct {
	Kind Kind
	W    int
	Args []*T
	Val  uint64 // KConst: value (Bool: 0/1)
	Name string // KVar, KApp
	Hi   int    // KExtract
	Lo   int
	ID   int
}

var (
	table  = map[string]*T{}
	nextID = 1
	True   *T
	False  *T
)

func init() {
	True = mk(&T{Kind: KConst, W: 0, Val: 1})
	False = mk(&T{Kind: KConst, W: 0, Val: 0})
}

// NumTerms reports the number of distinct terms built so far.
func NumTerms() int { return len(table) }

func key(t *T) string {
	var sb strings.Builder
	fmt.Fprintf(&sb, "%d.%d.%d.%s.%d.%d", t.Kind, t.W, t.Val, t.Name, t.Hi, t.Lo)
	for _, a := range t.Args {
		fmt.Fprintf(&sb, ",%d", a.ID)
	}
	return sb.String()
}

func mk(t *T) *T {
	k := key(t)
	if o, ok := table[k]; ok {
		return o
	}
	t.ID = nextID
	nextID++
	table[k] = t
	return t
}

func mask(w int) uint64 {
	if w >= 64 {
		return ^uint64(0)
	}
	return (uint64(1) << uint(w)) - 1
}

func sext64(v uint64, w int) int64 {
	if w >= 64 {
		return int64(v)
	}
	sh := uint(64 - w)
	return int64(v<<sh) >> sh
}

// Const makes a bit-vector constant of width w.
func Const(v uint64, w int) *T {
	if w == 0 {
		panic("Const with width 0; use Bool")
	}
	return mk(&T{Kind: KConst, W: w, Val: v & mask(w)})
}

func Bool(b bool) *T {
	if b {
		return True
	}
	return False
}

func Var(name string, w int) *T { return mk(&T{Kind: KVar, W: w, Name: name}) }

func (t *T) IsConst() bool { return t.Kind == KConst }
func (t *T) IsTrue() bool  { return t == True }
func (t *T) IsFalse() bool { return t == False }

// Uint returns the constant value (zero-extended).
func (t *T) Uint() uint64 { return t.Val }

// Int returns the constant value sign-extended from the term's width.
func (t *T) Int() int64 { return sext64(t.Val, t.W) }

func Not(a *T) *T {
	if a.W != 0 {
		panic("Not on non-bool")
	}
	switch {
	case a == True:
		return False
	case a == False:
		return True
	case a.Kind == KNot:
		return a.Args[0]
	}
	return mk(&T{Kind: KNot, Args: []*T{a}})
}

func nary(k Kind, unit, zero *T, xs []*T) *T {
	var out []*T
	seen := map[int]bool{}
	for _, x := range xs {
		if x.W != 0 {
			panic("bool connective on non-bool")
		}
		if x == zero {
			return zero
		}
		if x == unit {
			continue
		}
		if x.Kind == k {
			for _, y := range x.Args {
				if !seen[y.ID] {
					seen[y.ID] = true
					out = append(out, y)
				}
			}
			continue
		}
		if !seen[x.ID] {
			seen[x.ID] = true
			out = append(out, x)
		}
	}
	for _, x := range out {
		if x.Kind == KNot && seen[x.Args[0].ID] {
			return zero
		}
	}
	switch len(out) {
	case 0:
		return unit
	case 1:
		return out[0]
	}
	return mk(&T{Kind: k, Args: out})
}

func And(xs ...*T) *T { return nary(KAnd, True, False, xs) }
func Or(xs ...*T) *T  { return nary(KOr, False, True, xs) }
func Implies(a, b *T) *T {
	return Or(Not(a), b)
}

func Ite(c, a, b *T) *T {
	if a.W != b.W {
		panic(fmt.Sprintf("ite width mismatch %d %d", a.W, b.W))
	}
	switch {
	case c == True:
		return a
	case c == False:
		return b
	case a == b:
		return a
	}
	if a.W == 0 {
		if a == True && b == False {
			return c
		}
		if a == False && b == True {
			return Not(c)
		}
		if a == True {
			return Or(c, b)
		}
		if a == False {
			return And(Not(c), b)
		}
		if b == True {
			return Or(Not(c), a)
		}
		if b == False {
			return And(c, a)
		}
	}
	if c.Kind == KNot {
		return Ite(c.Args[0], b, a)
	}
	return mk(&T{Kind: KIte, W: a.W, Args: []*T{c, a, b}})
}

func Eq(a, b *T) *T {
	if a.W != b.W {
		panic(fmt.Sprintf("eq width mismatch %d %d", a.W, b.W))
	}
	if a == b {
		return True
	}
	if a.IsConst() && b.IsConst() {
		return Bool(a.Val == b.Val)
	}
	if a.W == 0 {
		if a == True {
			return b
		}
		if b == True {
			return a
		}
		if a == False {
			return Not(b)
		}
		if b == False {
			return Not(a)
		}
	}
	// structural split of equal-shaped concats
	if a.Kind == KConcat && b.Kind == KConcat && a.Args[0].W == b.Args[0].W {
		return And(Eq(a.Args[0], b.Args[0]), Eq(a.Args[1], b.Args[1]))
	}
	if a.Kind == KConcat && b.IsConst() {
		lw := a.Args[1].W
		return And(Eq(a.Args[0], Const(b.Val>>uint(lw), a.Args[0].W)), Eq(a.Args[1], Const(b.Val, lw)))
	}
	if b.Kind == KConcat && a.IsConst() {
		return Eq(b, a)
	}
	// x + c1 == c2  =>  x == c2 - c1
	if a.Kind == KAdd && a.Args[1].IsConst() && b.IsConst() {
		return Eq(a.Args[0], Const(b.Val-a.Args[1].Val, a.W))
	}
	if b.Kind == KAdd && b.Args[1].IsConst() && a.IsConst() {
		return Eq(b.Args[0], Const(a.Val-b.Args[1].Val, a.W))
	}
	// zext(x) == const
	if a.Kind == KZExt && b.IsConst() {
		iw := a.Args[0].W
		if b.Val>>uint(iw) != 0 {
			return False
		}
		return Eq(a.Args[0], Const(b.Val, iw))
	}
	if b.Kind == KZExt && a.IsConst() {
		return Eq(b, a)
	}
	if a.ID > b.ID {
		a, b = b, a
	}
	return mk(&T{Kind: KEq, Args: []*T{a, b}})
}

func bin(k Kind, a, b *T) *T {
	if a.W != b.W || a.W == 0 {
		panic(fmt.Sprintf("binop %s width mismatch %d %d", kindNames[k], a.W, b.W))
	}
	w := a.W
	m := mask(w)
	if a.IsConst() && b.IsConst() {
		x, y := a.Val, b.Val
		var r uint64
		switch k {
		case KAdd:
			r = x + y
		case KSub:
			r = x - y
		case KMul:
			r = x * y
		case KUDiv:
			if y == 0 {
				r = m
			} else {
				r = x / y
			}
		case KURem:
			if y == 0 {
				r = x
			} else {
				r = x % y
			}
		case KSDiv:
			sx, sy := sext64(x, w), sext64(y, w)
			if sy == 0 {
				if sx >= 0 {
					r = m
				} else {
					r = 1
				}
			} else if sy == -1 {
				r = uint64(-sx)
			} else {
				r = uint64(sx / sy)
			}
		case KSRem:
			sx, sy := sext64(x, w), sext64(y, w)
			if sy == 0 {
				r = x
			} else if sy == -1 {
				r = 0
			} else {
				r = uint64(sx % sy)
			}
		case KBAnd:
			r = x & y
		case KBOr:
			r = x | y
		case KBXor:
			r = x ^ y
		case KShl:
			if y >= uint64(w) {
				r = 0
			} else {
				r = x << y
			}
		case KLShr:
			if y >= uint64(w) {
				r = 0
			} else {
				r = x >> y
			}
		case KAShr:
			sx := sext64(x, w)
			if y >= uint64(w) {
				if sx < 0 {
					r = m
				} else {
					r = 0
				}
			} else {
				r = uint64(sx >> y)
			}
		}
		return Const(r, w)
	}
	switch k {
	case KAdd:
		if a.IsConst() {
			a, b = b, a
		}
		if b.IsConst() {
			if b.Val == 0 {
				return a
			}
			if a.Kind == KAdd && a.Args[1].IsConst() {
				return bin(KAdd, a.Args[0], Const(a.Args[1].Val+b.Val, w))
			}
			if a.Kind == KIte && a.Args[1].IsConst() && a.Args[2].IsConst() {
				return Ite(a.Args[0], Const(a.Args[1].Val+b.Val, w), Const(a.Args[2].Val+b.Val, w))
			}
		}
	case KSub:
		if b.IsConst() {
			return bin(KAdd, a, Const(-b.Val, w))
		}
		if a == b {
			return Const(0, w)
		}
		// (x + c) - x = c
		if a.Kind == KAdd && a.Args[0] == b {
			return a.Args[1]
		}
		// (x + c1) - (x + c2)
		if a.Kind == KAdd && b.Kind == KAdd && a.Args[0] == b.Args[0] && a.Args[1].IsConst() && b.Args[1].IsConst() {
			return Const(a.Args[1].Val-b.Args[1].Val, w)
		}
		if b.Kind == KAdd && b.Args[0] == a && b.Args[1].IsConst() {
			return Const(-b.Args[1].Val, w)
		}
	case KMul:
		if a.IsConst() {
			a, b = b, a
		}
		if b.IsConst() {
			if b.Val == 0 {
				return b
			}
			if b.Val == 1 {
				return a
			}
		}
	case KBAnd:
		if a.IsConst() {
			a, b = b, a
		}
		if b.IsConst() {
			if b.Val == 0 {
				return b
			}
			if b.Val == m {
				return a
			}
		}
		if a == b {
			return a
		}
	case KBOr, KBXor:
		if a.IsConst() {
			a, b = b, a
		}
		if b.IsConst() && b.Val == 0 {
			return a
		}
		if a == b {
			if k == KBOr {
				return a
			}
			return Const(0, w)
		}
	case KShl, KLShr, KAShr:
		if b.IsConst() && b.Val == 0 {
			return a
		}
		if b.IsConst() && b.Val >= uint64(w) && k != KAShr {
			return Const(0, w)
		}
	case KUDiv, KSDiv:
		if b.IsConst() && b.Val == 1 {
			return a
		}
	}
	return mk(&T{Kind: k, W: w, Args: []*T{a, b}})
}

func Add(a, b *T) *T  { return bin(KAdd, a, b) }
func Sub(a, b *T) *T  { return bin(KSub, a, b) }
func Mul(a, b *T) *T  { return bin(KMul, a, b) }
func UDiv(a, b *T) *T { return bin(KUDiv, a, b) }
func URem(a, b *T) *T { return bin(KURem, a, b) }
func SDiv(a, b *T) *T { return bin(KSDiv, a, b) }
func SRem(a, b *T) *T { return bin(KSRem, a, b) }
func BAnd(a, b *T) *T { return bin(KBAnd, a, b) }
func BOr(a, b *T) *T  { return bin(KBOr, a, b) }
func BXor(a, b *T) *T { return bin(KBXor, a, b) }
func Shl(a, b *T) *T  { return bin(KShl, a, b) }
func LShr(a, b *T) *T { return bin(KLShr, a, b) }
func AShr(a, b *T) *T { return bin(KAShr, a, b) }

func BNot(a *T) *T {
	if a.IsConst() {
		return Const(^a.Val, a.W)
	}
	if a.Kind == KBNot {
		return a.Args[0]
	}
	return mk(&T{Kind: KBNot, W: a.W, Args: []*T{a}})
}

func Neg(a *T) *T {
	if a.IsConst() {
		return Const(-a.Val, a.W)
	}
	return mk(&T{Kind: KNeg, W: a.W, Args: []*T{a}})
}

func cmp(k Kind, a, b *T) *T {
	if a.W != b.W || a.W == 0 {
		panic(fmt.Sprintf("cmp %s width mismatch %d %d", kindNames[k], a.W, b.W))
	}
	w := a.W
	if a.IsConst() && b.IsConst() {
		switch k {
		case KUlt:
			return Bool(a.Val < b.Val)
		case KUle:
			return Bool(a.Val <= b.Val)
		case KSlt:
			return Bool(sext64(a.Val, w) < sext64(b.Val, w))
		case KSle:
			return Bool(sext64(a.Val, w) <= sext64(b.Val, w))
		}
	}
	if a == b {
		return Bool(k == KUle || k == KSle)
	}
	// zext(x) compared with a constant / another zext of equal inner width
	if a.Kind == KZExt && b.Kind == KZExt && a.Args[0].W == b.Args[0].W {
		switch k {
		case KUlt, KSlt:
			return cmp(KUlt, a.Args[0], b.Args[0])
		case KUle, KSle:
			return cmp(KUle, a.Args[0], b.Args[0])
		}
	}
	if k == KUlt && b.IsConst() && b.Val == 0 {
		return False
	}
	if k == KUle && a.IsConst() && a.Val == 0 {
		return True
	}
	return mk(&T{Kind: k, Args: []*T{a, b}})
}

func Ult(a, b *T) *T { return cmp(KUlt, a, b) }
func Ule(a, b *T) *T { return cmp(KUle, a, b) }
func Slt(a, b *T) *T { return cmp(KSlt, a, b) }
func Sle(a, b *T) *T { return cmp(KSle, a, b) }

// Concat: a is the high part.
func Concat(a, b *T) *T {
	w := a.W + b.W
	if w > 64 {
		panic("concat wider than 64")
	}
	if a.IsConst() && b.IsConst() {
		return Const(a.Val<<uint(b.W)|b.Val, w)
	}
	// adjacent extracts of the same term
	if a.Kind == KExtract && b.Kind == KExtract && a.Args[0] == b.Args[0] && a.Lo == b.Hi+1 {
		return Extract(a.Args[0], a.Hi, b.Lo)
	}
	// concat(x, concat(y,z)) with x,y adjacent extracts -> merge left-assoc
	if b.Kind == KConcat && a.Kind == KExtract && b.Args[0].Kind == KExtract &&
		a.Args[0] == b.Args[0].Args[0] && a.Lo == b.Args[0].Hi+1 {
		return Concat(Extract(a.Args[0], a.Hi, b.Args[0].Lo), b.Args[1])
	}
	if a.Kind == KConcat && b.Kind == KExtract && a.Args[1].Kind == KExtract &&
		a.Args[1].Args[0] == b.Args[0] && a.Args[1].Lo == b.Hi+1 {
		return Concat(a.Args[0], Extract(b.Args[0], a.Args[1].Hi, b.Lo))
	}
	if a.IsConst() && a.Val == 0 {
		return ZExt(b, w)
	}
	return mk(&T{Kind: KConcat, W: w, Args: []*T{a, b}})
}

func Extract(a *T, hi, lo int) *T {
	if hi < lo || hi >= a.W || lo < 0 {
		panic(fmt.Sprintf("bad extract [%d:%d] of width %d", hi, lo, a.W))
	}
	w := hi - lo + 1
	if w == a.W {
		return a
	}
	switch a.Kind {
	case KConst:
		return Const(a.Val>>uint(lo), w)
	case KExtract:
		return Extract(a.Args[0], a.Lo+hi, a.Lo+lo)
	case KConcat:
		lw := a.Args[1].W
		if hi < lw {
			return Extract(a.Args[1], hi, lo)
		}
		if lo >= lw {
			return Extract(a.Args[0], hi-lw, lo-lw)
		}
		return Concat(Extract(a.Args[0], hi-lw, 0), Extract(a.Args[1], lw-1, lo))
	case KZExt, KSExt:
		iw := a.Args[0].W
		if hi < iw {
			return Extract(a.Args[0], hi, lo)
		}
		if a.Kind == KZExt && lo >= iw {
			return Const(0, w)
		}
		if a.Kind == KZExt {
			return ZExt(Extract(a.Args[0], iw-1, lo), w)
		}
	case KIte:
		if a.Args[1].IsConst() && a.Args[2].IsConst() {
			return Ite(a.Args[0], Extract(a.Args[1], hi, lo), Extract(a.Args[2], hi, lo))
		}
	}
	return mk(&T{Kind: KExtract, W: w, Args: []*T{a}, Hi: hi, Lo: lo})
}

func ZExt(a *T, w int) *T {
	if w == a.W {
		return a
	}
	if w < a.W {
		panic("zext to narrower width")
	}
	if a.IsConst() {
		return Const(a.Val, w)
	}
	if a.Kind == KZExt {
		return ZExt(a.Args[0], w)
	}
	if a.Kind == KIte && a.Args[1].IsConst() && a.Args[2].IsConst() {
		return Ite(a.Args[0], ZExt(a.Args[1], w), ZExt(a.Args[2], w))
	}
	return mk(&T{Kind: KZExt, W: w, Args: []*T{a}})
}

func SExt(a *T, w int) *T {
	if w == a.W {
		return a
	}
	if w < a.W {
		panic("sext to narrower width")
	}
	if a.IsConst() {
		return Const(uint64(sext64(a.Val, a.W)), w)
	}
	if a.Kind == KSExt {
		return SExt(a.Args[0], w)
	}
	if a.Kind == KZExt { // zero-extended value has a clear sign bit
		return ZExt(a.Args[0], w)
	}
	if a.Kind == KIte && a.Args[1].IsConst() && a.Args[2].IsConst() {
		return Ite(a.Args[0], SExt(a.Args[1], w), SExt(a.Args[2], w))
	}
	return mk(&T{Kind: KSExt, W: w, Args: []*T{a}})
}

// App applies an uninterpreted function of the given result width.
func App(name string, w int, args ...*T) *T {
	return mk(&T{Kind: KApp, W: w, Name: name, Args: append([]*T(nil), args...)})
}

func SortOf(w int) string {
	if w == 0 {
		return "Bool"
	}
	return fmt.Sprintf("(_ BitVec %d)", w)
}

// Head renders the term using names (from the callback) for its arguments.
func (t *T) Head(name func(*T) string) string {
	switch t.Kind {
	case KConst:
		if t.W == 0 {
			if t.Val != 0 {
				return "true"
			}
			return "false"
		}
		if t.W%4 == 0 {
			return fmt.Sprintf("#x%0*x", t.W/4, t.Val)
		}
		return fmt.Sprintf("#b%0*b", t.W, t.Val)
	case KVar:
		return t.Name
	case KExtract:
		return fmt.Sprintf("((_ extract %d %d) %s)", t.Hi, t.Lo, name(t.Args[0]))
	case KZExt:
		return fmt.Sprintf("((_ zero_extend %d) %s)", t.W-t.Args[0].W, name(t.Args[0]))
	case KSExt:
		return fmt.Sprintf("((_ sign_extend %d) %s)", t.W-t.Args[0].W, name(t.Args[0]))
	case KApp:
		if len(t.Args) == 0 {
			return t.Name
		}
		var sb strings.Builder
		sb.WriteString("(" + t.Name)
		for _, a := range t.Args {
			sb.WriteString(" " + name(a))
		}
		sb.WriteString(")")
		return sb.String()
	}
	var sb strings.Builder
	sb.WriteString("(" + kindNames[t.Kind])
	for _, a := range t.Args {
		sb.WriteString(" " + name(a))
	}
	sb.WriteString(")")
	return sb.String()
}

// String renders the full term (no sharing); for diagnostics.
func (t *T) String() string {
	return t.Head(func(a *T) string { return a.String() })
}

// Short renders up to n characters.
func (t *T) Short(n int) string {
	s := t.String()
	if len(s) > n {
		return s[:n] + "..."
	}
	return s
}

// Vars collects the variables in t (sorted by name).
func Vars(ts ...*T) []*T {
	seen := map[int]bool{}
	var out []*T
	var walk func(*T)
	walk = func(t *T) {
		if seen[t.ID] {
			return
		}
		seen[t.ID] = true
		if t.Kind == KVar {
			out = append(out, t)
		}
		for _, a := range t.Args {
			walk(a)
		}
	}
	for _, t := range ts {
		walk(t)
	}
	sort.Slice(out, func(i, j int) bool { return out[i].Name < out[j].Name })
	return out
}

// Eval evaluates t under a model of variable values; UF applications are
// looked up through uf (which may be nil, then they evaluate to 0 with ok=false).
func Eval(t *T, model map[string]uint64, uf func(name string, args []uint64) (uint64, bool)) (val uint64, ok bool) {
	memo := map[int]uint64{}
	ok = true
	var ev func(*T) uint64
	ev = func(t *T) uint64 {
		if v, h := memo[t.ID]; h {
			return v
		}
		var r uint64
		switch t.Kind {
		case KConst:
			r = t.Val
		case KVar:
			v, h := model[t.Name]
			if !h {
				v = 0
			}
			r = v & mask(max(t.W, 1))
		case KNot:
			r = 1 - ev(t.Args[0])
		case KAnd:
			r = 1
			for _, a := range t.Args {
				if ev(a) == 0 {
					r = 0
				}
			}
		case KOr:
			r = 0
			for _, a := range t.Args {
				if ev(a) != 0 {
					r = 1
				}
			}
		case KIte:
			if ev(t.Args[0]) != 0 {
				r = ev(t.Args[1])
			} else {
				r = ev(t.Args[2])
			}
		case KEq:
			if ev(t.Args[0]) == ev(t.Args[1]) {
				r = 1
			}
		case KUlt, KUle, KSlt, KSle:
			c := cmp(t.Kind, Const(ev(t.Args[0]), t.Args[0].W), Const(ev(t.Args[1]), t.Args[1].W))
			r = c.Val
		case KBNot:
			r = ^ev(t.Args[0]) & mask(t.W)
		case KNeg:
			r = -ev(t.Args[0]) & mask(t.W)
		case KConcat:
			r = ev(t.Args[0])<<uint(t.Args[1].W) | ev(t.Args[1])
		case KExtract:
			r = (ev(t.Args[0]) >> uint(t.Lo)) & mask(t.W)
		case KZExt:
			r = ev(t.Args[0])
		case KSExt:
			r = uint64(sext64(ev(t.Args[0]), t.Args[0].W)) & mask(t.W)
		case KApp:
			args := make([]uint64, len(t.Args))
			for i, a := range t.Args {
				args[i] = ev(a)
			}
			if uf != nil {
				v, h := uf(t.Name, args)
				if !h {
					ok = false
				}
				r = v & mask(max(t.W, 1))
			} else {
				ok = false
			}
		default:
			c := bin(t.Kind, Const(ev(t.Args[0]), t.W), Const(ev(t.Args[1]), t.W))
			r = c.Val
		}
		memo[t.ID] = r
		return r
	}
	val = ev(t)
	return
}
