// Package instr generates, from the current source of /repo, instrumented
// copies of the klevdb files that perform file-system mutations: a call of
// vrt.Tap(false) is inserted before and vrt.Tap(true) after every statement
// that directly contains such a call. The copies are used through
// `go test -overlay` for the native replay of crash counterexamples; /repo is
// not changed.
package instr

import (
	"bytes"
	"fmt"
	"go/ast"
	"go/printer"
	"go/token"
	"go/types"
	"os"
	"path/filepath"
	"strings"

	"golang.org/x/tools/go/packages"
)

const vrtPath = "github.com/klev-dev/klevdb/internal/zzverif/vrt"

// Tapped is the set of mutating calls (must match the crash points of the engine).
var Tapped = map[string]bool{
	"os.OpenFile": true, "os.Create": true, "os.Rename": true, "os.Remove": true, "os.Chtimes": true,
	"os.MkdirAll": true, "io.Copy": true, "(*os.File).Write": true, "(*os.File).Sync": true,
	"os.Truncate": true, "(*os.File).Truncate": true, "os.WriteFile": true, "os.RemoveAll": true,
	"(*os.File).WriteString": true, "(*os.File).WriteAt": true, "os.Mkdir": true,
}

type Result struct {
	Files       map[string]string // real path -> instrumented path
	Taps        int
	Unsupported []string
}

func Instrument(repo, outDir string) (*Result, error) {
	cfg := &packages.Config{
		Mode: packages.NeedName | packages.NeedFiles | packages.NeedSyntax | packages.NeedTypes | packages.NeedTypesInfo | packages.NeedImports | packages.NeedDeps,
		Dir:  repo,
		Env:  append(os.Environ(), "GOFLAGS=-mod=mod", "GOPROXY=off"),
	}
	pkgs, err := packages.Load(cfg, "./...")
	if err != nil {
		return nil, err
	}
	res := &Result{Files: map[string]string{}}
	os.MkdirAll(outDir, 0755)
	for _, p := range pkgs {
		if len(p.Errors) > 0 {
			return nil, fmt.Errorf("package %s: %v", p.PkgPath, p.Errors[0])
		}
		for _, f := range p.Syntax {
			name := p.Fset.Position(f.Pos()).Filename
			if strings.HasSuffix(name, "_test.go") {
				continue
			}
			in := &inst{info: p.TypesInfo, fset: p.Fset, res: res, file: name}
			n := in.file_(f)
			if n == 0 {
				continue
			}
			addImport(f)
			var buf bytes.Buffer
			if err := printer.Fprint(&buf, p.Fset, f); err != nil {
				return nil, err
			}
			rel, _ := filepath.Rel(repo, name)
			out := filepath.Join(outDir, strings.ReplaceAll(rel, "/", "__"))
			if err := os.WriteFile(out, buf.Bytes(), 0644); err != nil {
				return nil, err
			}
			res.Files[name] = out
			res.Taps += n
		}
	}
	return res, nil
}

type inst struct {
	info *types.Info
	fset *token.FileSet
	res  *Result
	file string
}

func addImport(f *ast.File) {
	spec := &ast.ImportSpec{Name: ast.NewIdent("zzvrt"), Path: &ast.BasicLit{Kind: token.STRING, Value: `"` + vrtPath + `"`}}
	decl := &ast.GenDecl{Tok: token.IMPORT, Specs: []ast.Spec{spec}}
	f.Decls = append([]ast.Decl{decl}, f.Decls...)
}

func tapStmt(post bool) ast.Stmt {
	arg := "false"
	if post {
		arg = "true"
	}
	return &ast.ExprStmt{X: &ast.CallExpr{
		Fun:  &ast.SelectorExpr{X: ast.NewIdent("zzvrt"), Sel: ast.NewIdent("Tap")},
		Args: []ast.Expr{ast.NewIdent(arg)},
	}}
}

func (in *inst) calleeName(call *ast.CallExpr) string {
	sel, ok := call.Fun.(*ast.SelectorExpr)
	if !ok {
		return ""
	}
	if s, ok := in.info.Selections[sel]; ok {
		if fn, ok := s.Obj().(*types.Func); ok {
			return fn.FullName()
		}
		return ""
	}
	if fn, ok := in.info.Uses[sel.Sel].(*types.Func); ok {
		return fn.FullName()
	}
	return ""
}

// countIn counts tapped calls in the given nodes without descending into
// nested blocks or function literals.
func (in *inst) countIn(nodes ...ast.Node) int {
	n := 0
	for _, node := range nodes {
		if node == nil || isNil(node) {
			continue
		}
		ast.Inspect(node, func(x ast.Node) bool {
			switch x := x.(type) {
			case *ast.BlockStmt, *ast.FuncLit:
				return false
			case *ast.CallExpr:
				if Tapped[in.calleeName(x)] {
					n++
				}
			}
			return true
		})
	}
	return n
}

func isNil(n ast.Node) bool {
	switch x := n.(type) {
	case ast.Stmt:
		return x == nil
	case ast.Expr:
		return x == nil
	}
	return false
}

// direct: tapped calls directly in a statement (its header, for compound statements).
func (in *inst) direct(s ast.Stmt) int {
	switch s := s.(type) {
	case *ast.IfStmt:
		n := 0
		if s.Init != nil {
			n += in.countIn(s.Init)
		}
		n += in.countIn(s.Cond)
		return n
	case *ast.ForStmt:
		n := 0
		if s.Init != nil {
			n += in.countIn(s.Init)
		}
		if s.Cond != nil {
			n += in.countIn(s.Cond)
		}
		if s.Post != nil {
			n += in.countIn(s.Post)
		}
		return n
	case *ast.RangeStmt:
		return in.countIn(s.X)
	case *ast.SwitchStmt:
		n := 0
		if s.Init != nil {
			n += in.countIn(s.Init)
		}
		if s.Tag != nil {
			n += in.countIn(s.Tag)
		}
		return n
	case *ast.TypeSwitchStmt:
		n := 0
		if s.Init != nil {
			n += in.countIn(s.Init)
		}
		n += in.countIn(s.Assign)
		return n
	case *ast.BlockStmt, *ast.SelectStmt, *ast.LabeledStmt:
		return 0
	case *ast.DeferStmt:
		// the deferred call runs later; only its arguments are evaluated now
		n := 0
		for _, a := range s.Call.Args {
			n += in.countIn(a)
		}
		return n
	case *ast.GoStmt:
		n := 0
		for _, a := range s.Call.Args {
			n += in.countIn(a)
		}
		return n
	}
	return in.countIn(s)
}

func (in *inst) list(stmts []ast.Stmt) ([]ast.Stmt, int) {
	var out []ast.Stmt
	total := 0
	for _, s := range stmts {
		total += in.nested(s)
		n := in.direct(s)
		if n == 0 {
			out = append(out, s)
			continue
		}
		if n > 1 {
			in.res.Unsupported = append(in.res.Unsupported, fmt.Sprintf("%s: statement with %d mutating calls cannot be tapped precisely", in.fset.Position(s.Pos()), n))
		}
		total += n
		out = append(out, tapStmt(false), s)
		switch s.(type) {
		case *ast.ReturnStmt, *ast.BranchStmt:
		default:
			out = append(out, tapStmt(true))
		}
	}
	return out, total
}

// nested instruments the blocks nested in s and returns the number of taps.
func (in *inst) nested(s ast.Stmt) int {
	n := 0
	switch s := s.(type) {
	case *ast.BlockStmt:
		var k int
		s.List, k = in.list(s.List)
		n += k
	case *ast.IfStmt:
		n += in.nested(s.Body)
		switch e := s.Else.(type) {
		case *ast.BlockStmt:
			n += in.nested(e)
		case *ast.IfStmt:
			if in.direct(e) > 0 {
				in.res.Unsupported = append(in.res.Unsupported, fmt.Sprintf("%s: mutating call in the header of an else-if", in.fset.Position(e.Pos())))
			}
			n += in.nested(e)
		}
	case *ast.ForStmt:
		n += in.nested(s.Body)
	case *ast.RangeStmt:
		n += in.nested(s.Body)
	case *ast.SwitchStmt:
		n += in.clauses(s.Body)
	case *ast.TypeSwitchStmt:
		n += in.clauses(s.Body)
	case *ast.SelectStmt:
		n += in.clauses(s.Body)
	case *ast.LabeledStmt:
		n += in.nested(s.Stmt)
		if in.direct(s.Stmt) > 0 {
			in.res.Unsupported = append(in.res.Unsupported, fmt.Sprintf("%s: mutating call in a labeled statement header", in.fset.Position(s.Pos())))
		}
	}
	// function literals anywhere in the statement (not inside nested blocks, which are handled above)
	ast.Inspect(s, func(x ast.Node) bool {
		switch x := x.(type) {
		case *ast.BlockStmt:
			return x == ast.Node(s)
		case *ast.FuncLit:
			var k int
			x.Body.List, k = in.list(x.Body.List)
			n += k
			return false
		}
		return true
	})
	return n
}

func (in *inst) clauses(b *ast.BlockStmt) int {
	n := 0
	for _, c := range b.List {
		switch c := c.(type) {
		case *ast.CaseClause:
			if in.countIn(exprNodes(c.List)...) > 0 {
				in.res.Unsupported = append(in.res.Unsupported, fmt.Sprintf("%s: mutating call in a case expression", in.fset.Position(c.Pos())))
			}
			var k int
			c.Body, k = in.list(c.Body)
			n += k
		case *ast.CommClause:
			var k int
			c.Body, k = in.list(c.Body)
			n += k
		}
	}
	return n
}

func exprNodes(es []ast.Expr) []ast.Node {
	var out []ast.Node
	for _, e := range es {
		out = append(out, e)
	}
	return out
}

func (in *inst) file_(f *ast.File) int {
	n := 0
	for _, d := range f.Decls {
		fd, ok := d.(*ast.FuncDecl)
		if !ok || fd.Body == nil {
			continue
		}
		var k int
		fd.Body.List, k = in.list(fd.Body.List)
		n += k
	}
	return n
}
