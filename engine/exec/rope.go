package exec

import (
	"fmt"
	"strconv"
	"strings"

	"gosym/term"
)

// Rope is a string made of concrete pieces and 20-digit zero-padded decimal
// renderings of non-negative 64-bit terms (the "%020d" of segment file names).
type Rope struct {
	parts []ropePart
}

type ropePart struct {
	s string
	t *term.T // if non-nil: dec20(t)
}

const decWidth = 20

func ropeOf(s string) *Rope {
	if s == "" {
		return &Rope{}
	}
	return &Rope{parts: []ropePart{{s: s}}}
}

func ropeDec(t *term.T) Value {
	if t.IsConst() {
		return fmt.Sprintf("%020d", t.Int())
	}
	return &Rope{parts: []ropePart{{t: t}}}
}

func (r *Rope) Len() int {
	n := 0
	for _, p := range r.parts {
		if p.t != nil {
			n += decWidth
		} else {
			n += len(p.s)
		}
	}
	return n
}

func (r *Rope) String() string {
	var sb strings.Builder
	for _, p := range r.parts {
		if p.t != nil {
			sb.WriteString("<" + p.t.Short(40) + ">")
		} else {
			sb.WriteString(p.s)
		}
	}
	return sb.String()
}

// norm merges adjacent concrete parts; returns a plain string when possible.
func (r *Rope) norm() Value {
	var out []ropePart
	for _, p := range r.parts {
		if p.t != nil && p.t.IsConst() {
			p = ropePart{s: fmt.Sprintf("%020d", p.t.Int())}
		}
		if p.t == nil && p.s == "" {
			continue
		}
		if p.t == nil && len(out) > 0 && out[len(out)-1].t == nil {
			out[len(out)-1].s += p.s
			continue
		}
		out = append(out, p)
	}
	if len(out) == 0 {
		return ""
	}
	if len(out) == 1 && out[0].t == nil {
		return out[0].s
	}
	return &Rope{parts: out}
}

func toRope(v Value) *Rope {
	switch v := v.(type) {
	case string:
		return ropeOf(v)
	case *Rope:
		return v
	}
	panic(unsupported(fmt.Sprintf("string value %T", v)))
}

func ropeConcat(x, y Value) Value {
	if xs, ok := x.(string); ok {
		if ys, ok := y.(string); ok {
			return xs + ys
		}
	}
	a, b := toRope(x), toRope(y)
	r := &Rope{parts: append(append([]ropePart{}, a.parts...), b.parts...)}
	return r.norm()
}

// Substr supports cuts that fall on part boundaries or inside concrete parts.
func (r *Rope) Substr(lo, hi int) Value {
	var out []ropePart
	off := 0
	for _, p := range r.parts {
		n := decWidth
		if p.t == nil {
			n = len(p.s)
		}
		s, e := max(lo, off), min(hi, off+n)
		if s < e {
			if p.t != nil {
				if s != off || e != off+n {
					panic(unsupported("substring cutting through a symbolic number"))
				}
				out = append(out, p)
			} else {
				out = append(out, ropePart{s: p.s[s-off : e-off]})
			}
		}
		off += n
	}
	return (&Rope{parts: out}).norm()
}

// ropeEq builds the Bool term for equality of two ropes.
func ropeEq(a, b *Rope) *term.T {
	if a.Len() != b.Len() {
		return term.False
	}
	// flatten into aligned cursors
	type cur struct {
		parts []ropePart
		i     int // part index
		o     int // offset within concrete part
	}
	ca, cb := cur{parts: a.parts}, cur{parts: b.parts}
	var conj []*term.T
	for ca.i < len(ca.parts) && cb.i < len(cb.parts) {
		pa, pb := ca.parts[ca.i], cb.parts[cb.i]
		switch {
		case pa.t != nil && pb.t != nil:
			conj = append(conj, term.Eq(pa.t, pb.t))
			ca.i++
			cb.i++
		case pa.t != nil || pb.t != nil:
			// symbolic number against 20 concrete characters
			sym, con := &ca, &cb
			if pa.t == nil {
				sym, con = &cb, &ca
			}
			cp := con.parts[con.i]
			if cp.t != nil || len(cp.s)-con.o < decWidth {
				panic(unsupported("misaligned comparison of symbolic file names"))
			}
			digits := cp.s[con.o : con.o+decWidth]
			v, err := strconv.ParseUint(digits, 10, 64)
			if err != nil || v > 1<<63-1 || strings.ContainsAny(digits, "+-") {
				return term.False
			}
			conj = append(conj, term.Eq(sym.parts[sym.i].t, term.Const(v, 64)))
			sym.i++
			con.o += decWidth
			if con.o == len(cp.s) {
				con.i++
				con.o = 0
			}
		default:
			ra, rb := pa.s[ca.o:], pb.s[cb.o:]
			n := min(len(ra), len(rb))
			if ra[:n] != rb[:n] {
				return term.False
			}
			ca.o += n
			cb.o += n
			if ca.o == len(pa.s) {
				ca.i++
				ca.o = 0
			}
			if cb.o == len(pb.s) {
				cb.i++
				cb.o = 0
			}
		}
	}
	return term.And(conj...)
}

// ropeLess builds a Bool term for a < b (lexicographic), for ropes that have
// the same shape up to the first differing symbolic number.
func ropeLess(a, b *Rope) *term.T {
	// Supported shape: common concrete prefix, then number vs number (or vs 20 digits), then anything.
	ia, ib := 0, 0
	oa, ob := 0, 0
	for ia < len(a.parts) && ib < len(b.parts) {
		pa, pb := a.parts[ia], b.parts[ib]
		if pa.t == nil && pb.t == nil {
			ra, rb := pa.s[oa:], pb.s[ob:]
			n := min(len(ra), len(rb))
			if ra[:n] != rb[:n] {
				return term.Bool(ra[:n] < rb[:n])
			}
			oa += n
			ob += n
			if oa == len(pa.s) {
				ia++
				oa = 0
			}
			if ob == len(pb.s) {
				ib++
				ob = 0
			}
			continue
		}
		var ta, tb *term.T
		if pa.t != nil {
			ta = pa.t
		} else {
			if c := pa.s[oa]; c < '0' {
				return term.True
			} else if c > '9' {
				return term.False
			}
			if len(pa.s)-oa < decWidth {
				panic(unsupported("ordering of misaligned symbolic names"))
			}
			v, err := strconv.ParseUint(pa.s[oa:oa+decWidth], 10, 64)
			if err != nil {
				panic(unsupported("ordering symbolic name against non-numeric name"))
			}
			ta = term.Const(v, 64)
		}
		if pb.t != nil {
			tb = pb.t
		} else {
			if c := pb.s[ob]; c < '0' {
				return term.False
			} else if c > '9' {
				return term.True
			}
			if len(pb.s)-ob < decWidth {
				panic(unsupported("ordering of misaligned symbolic names"))
			}
			v, err := strconv.ParseUint(pb.s[ob:ob+decWidth], 10, 64)
			if err != nil {
				panic(unsupported("ordering symbolic name against non-numeric name"))
			}
			tb = term.Const(v, 64)
		}
		// remaining suffix comparison when numbers are equal
		ra := &Rope{parts: append([]ropePart{}, a.parts[ia:]...)}
		rb := &Rope{parts: append([]ropePart{}, b.parts[ib:]...)}
		sa := ra.Substr(oa+decWidth, ra.Len())
		sb := rb.Substr(ob+decWidth, rb.Len())
		var restLess *term.T
		s1, ok1 := sa.(string)
		s2, ok2 := sb.(string)
		if ok1 && ok2 {
			restLess = term.Bool(s1 < s2)
		} else {
			restLess = ropeLess(toRope(sa), toRope(sb))
		}
		return term.Or(term.Ult(ta, tb), term.And(term.Eq(ta, tb), restLess))
	}
	// one is a prefix of the other
	return term.Bool(ia >= len(a.parts) && ib < len(b.parts))
}

func symStringOf(bs []*term.T) Value {
	panic(unsupported("string with symbolic bytes"))
}
