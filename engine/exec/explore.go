package exec

import (
	"fmt"
	"go/token"
	"os"
	"sort"
	"strings"
	"time"

	"golang.org/x/tools/go/ssa"

	"gosym/smt"
	"gosym/term"
)

type decKind uint8

const (
	dBranch decKind = iota // two-way branch on a Bool term
	dAssume                // path-condition extension
	dAssert                // obligation (result cached)
	dConc                  // concretisation of a term (case split over feasible values)
	dSched                 // scheduler choice
)

type dec struct {
	kind   decKind
	cond   *term.T  // dBranch/dAssume/dAssert: the condition; dConc: the term
	choice int      // dBranch: 0 = true side, 1 = false side; dConc: index into vals; dSched: index
	nalts  int      // dBranch: 1 (forced) or 2; dSched: number enabled
	vals   []uint64 // dConc: values discovered so far
	pushed bool     // an assertion frame was pushed on the solver for this entry
	ok     bool     // dAssert: obligation was discharged
	lvl    int      // solver level before this entry was processed
	big    bool     // dConc: the chosen value stands for "all values above the cap"
	altModel map[string]uint64 // dBranch: a model of the false side (reused after backtracking)
	fromObl  bool              // dAssume: created by a violated obligation (re-applied on replay)
}

// pathEnd is the host panic used to abandon the current path.
type pathEnd struct {
	reason string
}

// goPanic is an interpreted Go panic travelling up the interpreted stack.
type goPanic struct {
	val  Value
	desc string
	pos  token.Pos
}

type Violation struct {
	Label  string            `json:"label"`
	Kind   string            `json:"kind"` // assert | panic | unwind
	Pos    string            `json:"pos"`
	Inputs []InputVal        `json:"inputs"`
	Extra  map[string]string `json:"extra,omitempty"`
	Known  string            `json:"known,omitempty"`
	// Choices: the scheduler / n-way decisions of the path (for the concrete
	// re-execution of schedule counterexamples); Confirmed names how the
	// counterexample was validated inside the engine, if it was.
	Choices   []int  `json:"choices,omitempty"`
	Confirmed string `json:"confirmed,omitempty"`
}

type InputVal struct {
	Name  string `json:"name"`
	Bits  int    `json:"bits"`
	Value uint64 `json:"value"`
}

type Witness struct {
	Label  string            `json:"label"`
	Inputs []InputVal        `json:"inputs"`
	Obs    []ObsVal          `json:"obs"`
	Extra  map[string]string `json:"extra,omitempty"`
}

type ObsVal struct {
	Name  string `json:"name"`
	Value string `json:"value"`
}

type Counters struct {
	Paths        int
	PathsDone    int // completed normally
	PathsInfeas  int // ended by Assume
	Instrs       int64
	Obligations  int
	Discharged   int
	Violations   int
	UnknownObl   int
	UnknownBr    int
	Unsupported  map[string]int
	UnwindHits   int
	ConcCapHits  int
	BranchForks  int
	ConcForks    int
	ReplayInstrs int64
}

// Exec explores one harness function.
type Exec struct {
	Prog    *ssa.Program
	Solver  *smt.Solver
	Harness *ssa.Function
	Cfg     Config

	trace []*dec
	pos   int

	// per-path state
	st *State

	C          Counters
	Violations []*Violation
	seenViol   map[string]bool
	Reached    map[string]int
	Witnesses  map[string]*Witness
	FuncsRun   map[*ssa.Function]int64
	StubsRun   map[string]int
	Samples    []string
	KnownHit   map[string]bool
	Assumes    map[string]bool
	deadline   time.Time
	TimedOut   bool
	pending    []pendingObl
	choicePos  int
	model      map[string]uint64 // a model of the current path condition (nil: unknown)
	ModelHits  int
}

type Config struct {
	Bounds       map[string]int
	MaxInstrs    int64 // per path
	LoopBudget   int   // per (frame, block)
	ConcCap      int   // values per concretisation
	MaxViol      int
	Known        map[string]string // known-finding id -> status ("known"|"fixed")
	Verbose      int
	TimeBudget   time.Duration
	WantWitness  bool
	ExpectPanics bool
	// concrete re-execution: inputs take these values, n-way choices follow Choices
	Concrete map[string]uint64
	Choices  []int
}

// State is everything that is reset at the start of each path.
type State struct {
	pc        []*term.T
	inputs    []*term.T
	inputSeen map[string]int
	globals   map[*ssa.Global]*Value
	obs       []obsRec
	instrs    int64
	fs        *FS
	clock     *term.T
	fresh     int
	locks     map[*Value]*lockState
	sched     *Sched
	ghost     map[string]Value
	concCap   int
	known     []*term.T // disjunction of known-finding predicates active on this path
	knownIDs  []string
	errCache  map[*ssa.Global]Value
	flocks    map[string]*flockState
	crcApps   []*term.T
	depth     int
	decided   map[*term.T]bool
	crashSt   *crashState
}

type obsRec struct {
	name string
	val  *term.T
	str  string
}

func NewExec(prog *ssa.Program, solver *smt.Solver, harness *ssa.Function, cfg Config) *Exec {
	if cfg.MaxInstrs == 0 {
		cfg.MaxInstrs = 20_000_000
	}
	if cfg.LoopBudget == 0 {
		cfg.LoopBudget = 100000
	}
	if cfg.ConcCap == 0 {
		cfg.ConcCap = 64
	}
	if cfg.MaxViol == 0 {
		cfg.MaxViol = 8
	}
	return &Exec{Prog: prog, Solver: solver, Harness: harness, Cfg: cfg,
		seenViol: map[string]bool{}, Reached: map[string]int{}, Witnesses: map[string]*Witness{},
		FuncsRun: map[*ssa.Function]int64{}, StubsRun: map[string]int{}, KnownHit: map[string]bool{},
		Assumes: map[string]bool{},
		C:       Counters{Unsupported: map[string]int{}}}
}

// Run explores all paths of the harness (DFS by re-execution).
func (ex *Exec) Run() {
	if ex.Cfg.TimeBudget > 0 {
		ex.deadline = time.Now().Add(ex.Cfg.TimeBudget)
	}
	for {
		ex.runPath()
		if len(ex.Violations) >= ex.Cfg.MaxViol {
			break
		}
		if !ex.deadline.IsZero() && time.Now().After(ex.deadline) {
			ex.TimedOut = true
			break
		}
		if !ex.backtrack() {
			break
		}
	}
	ex.Solver.PopTo(0)
}

// RunConcrete executes exactly one path with concrete inputs and choices.
func (ex *Exec) RunConcrete() {
	ex.choicePos = 0
	ex.runPath()
	ex.Solver.PopTo(0)
}

func (ex *Exec) runPath() {
	ex.pos = 0
	ex.st = ex.newState()
	ex.model = nil
	ex.pending = nil
	ex.C.Paths++
	r := ex.runPathBody()
	// obligations met since the last decision point are decided now, unless the
	// path ended because its condition became unsatisfiable
	if pe, ok := r.(pathEnd); !(ok && pe.reason == "assume") {
		func() {
			defer func() {
				if r2 := recover(); r2 != nil {
					if _, ok := r2.(pathEnd); !ok {
						panic(r2)
					}
				}
			}()
			ex.flush()
		}()
	}
	ex.pending = nil
	ex.C.Instrs += ex.st.instrs
	if ex.st.sched != nil {
		ex.st.sched.abortAll()
	}
	switch r := r.(type) {
	case nil:
		ex.C.PathsDone++
	case pathEnd:
		if r.reason == "assume" {
			ex.C.PathsInfeas++
		} else if r.reason == "done" {
			ex.C.PathsDone++
		}
	case unsupportedErr:
		ex.C.Unsupported[r.msg]++
		if ex.Cfg.Verbose > 0 {
			fmt.Fprintln(os.Stderr, "UNSUPPORTED:", r.msg)
		}
	case *goPanic:
		// an interpreted panic reached the top of the harness
		if ex.Cfg.ExpectPanics {
			ex.C.PathsDone++
			return
		}
		ex.reportViolation("panic: "+r.desc, "panic", r.pos, nil)
	default:
		panic(r)
	}
}

func (ex *Exec) runPathBody() (res any) {
	defer func() {
		res = recover()
	}()
	ex.initGlobals()
	ex.callFunction(ex.Harness, nil, nil)
	if ex.st.sched != nil {
		ex.st.sched.finishMain(ex)
	}
	return nil
}

// backtrack moves to the next unexplored alternative; false when exhausted.
func (ex *Exec) backtrack() bool {
	for len(ex.trace) > 0 {
		i := len(ex.trace) - 1
		d := ex.trace[i]
		switch d.kind {
		case dBranch:
			if d.nalts == 2 && d.choice == 0 {
				ex.Solver.PopTo(d.lvl)
				d.choice = 1
				d.pushed = false
				return true
			}
		case dSched:
			if d.choice+1 < d.nalts {
				ex.Solver.PopTo(d.lvl)
				d.choice++
				return true
			}
		case dConc:
			ex.Solver.PopTo(d.lvl)
			if d.big {
				break
			}
			// look for another feasible value
			var excl []*term.T
			for _, v := range d.vals {
				excl = append(excl, term.Not(term.Eq(d.cond, term.Const(v, d.cond.W))))
			}
			capN := ex.Cfg.ConcCap
			if len(d.vals) >= capN {
				// remaining values: one representative, flagged
				r, vals := ex.Solver.CheckWith(excl, []*term.T{d.cond})
				if r != smt.Unsat {
					ex.C.ConcCapHits++
					if r == smt.Sat {
						d.vals = append(d.vals, vals[d.cond.ID])
						d.choice = len(d.vals) - 1
						d.big = true
						d.pushed = false
						return true
					}
				}
				break
			}
			r, vals := ex.Solver.CheckWith(excl, []*term.T{d.cond})
			if r == smt.Sat {
				d.vals = append(d.vals, vals[d.cond.ID])
				d.choice = len(d.vals) - 1
				d.pushed = false
				ex.C.ConcForks++
				return true
			}
			if r == smt.Unknown {
				ex.C.UnknownBr++
			}
		}
		ex.Solver.PopTo(d.lvl)
		ex.trace = ex.trace[:i]
	}
	return false
}

func (ex *Exec) endPath(reason string) {
	panic(pathEnd{reason})
}

// replaying reports whether the next decision is a recorded one.
func (ex *Exec) replaying() bool { return ex.pos < len(ex.trace) }

func (ex *Exec) pushAssert(d *dec, c *term.T) {
	ex.Solver.Push()
	ex.Solver.Assert(c)
	d.pushed = true
}

// replayObl re-applies, during replay, the assumptions that violated
// obligations left in the trace (the obligations themselves are not re-checked).
func (ex *Exec) replayObl() {
	for ex.pos < len(ex.trace) && ex.trace[ex.pos].kind == dAssume && ex.trace[ex.pos].fromObl {
		ex.assumeNoFlush(ex.trace[ex.pos].cond)
	}
}

// evalModel evaluates c under the cached model of the path condition.
func (ex *Exec) evalModel(c *term.T) (bool, bool) {
	if ex.model == nil {
		return false, false
	}
	v, ok := term.Eval(c, ex.model, nil)
	if !ok {
		return false, false
	}
	return v != 0, true
}

// checkSide decides feasibility of pc AND c; on sat the model is returned.
func (ex *Exec) checkSide(c *term.T) (smt.Result, map[string]uint64) {
	r, vals := ex.Solver.CheckWith([]*term.T{c}, ex.st.inputs)
	if r != smt.Sat {
		return r, nil
	}
	m := make(map[string]uint64, len(ex.st.inputs))
	for _, in := range ex.st.inputs {
		m[in.Name] = vals[in.ID]
	}
	return r, m
}

// Branch decides a symbolic condition, forking when both sides are feasible.
func (ex *Exec) Branch(c *term.T) bool {
	if c.IsConst() {
		return c.IsTrue()
	}
	if c.Kind == term.KNot {
		return !ex.Branch(c.Args[0])
	}
	// a condition already decided on this path stays decided (the path condition only grows)
	if v, ok := ex.st.decided[c]; ok {
		return v
	}
	r := ex.branch1(c)
	ex.st.decided[c] = r
	return r
}

func (ex *Exec) branch1(c *term.T) bool {
	ex.replayObl()
	if ex.replaying() {
		d := ex.trace[ex.pos]
		ex.pos++
		if d.kind != dBranch || d.cond != c {
			panic(fmt.Sprintf("nondeterministic replay: branch expected %v got kind %d cond %s vs %s", d.kind, d.kind, d.cond.Short(200), c.Short(200)))
		}
		taken := d.choice == 0
		cc := c
		if !taken {
			cc = term.Not(c)
		}
		if d.nalts == 2 && !d.pushed {
			ex.pushAssert(d, cc)
			if !taken && d.altModel != nil {
				ex.model = d.altModel
			}
		}
		ex.st.pc = append(ex.st.pc, cc)
		return taken
	}
	ex.flush()
	d := &dec{kind: dBranch, cond: c, lvl: ex.Solver.Level()}
	var rt, rf smt.Result
	var mt, mf map[string]uint64
	if v, ok := ex.evalModel(c); ok {
		ex.ModelHits++
		if v {
			rt, mt = smt.Sat, ex.model
			rf, mf = ex.checkSide(term.Not(c))
		} else {
			rf, mf = smt.Sat, ex.model
			rt, mt = ex.checkSide(c)
		}
	} else {
		rt, mt = ex.checkSide(c)
		rf, mf = ex.checkSide(term.Not(c))
	}
	if rt == smt.Unknown || rf == smt.Unknown {
		ex.C.UnknownBr++
	}
	ft, ff := rt != smt.Unsat, rf != smt.Unsat
	switch {
	case ft && ff:
		d.nalts = 2
		d.choice = 0
		d.altModel = mf
		ex.C.BranchForks++
	case ft:
		d.nalts = 1
		d.choice = 0
	case ff:
		d.nalts = 1
		d.choice = 1
	default:
		// path condition itself is unsatisfiable
		ex.endPath("assume")
	}
	ex.trace = append(ex.trace, d)
	ex.pos++
	taken := d.choice == 0
	cc := c
	if !taken {
		cc = term.Not(c)
	}
	if taken {
		ex.model = mt
	} else {
		ex.model = mf
	}
	if d.nalts == 2 {
		ex.pushAssert(d, cc)
	}
	ex.st.pc = append(ex.st.pc, cc)
	return taken
}

// Assume extends the path condition; ends the path if it becomes infeasible.
func (ex *Exec) Assume(c *term.T) {
	if c.IsTrue() {
		return
	}
	ex.replayObl()
	if !ex.replaying() {
		ex.flush()
	}
	ex.assumeNoFlush(c)
}

func (ex *Exec) assumeNoFlush(c *term.T) {
	if c.IsTrue() {
		return
	}
	if c.IsFalse() {
		ex.endPath("assume")
	}
	if ex.replaying() {
		d := ex.trace[ex.pos]
		ex.pos++
		if d.kind != dAssume || d.cond != c {
			panic("nondeterministic replay: assume")
		}
		if !d.ok {
			ex.endPath("assume")
		}
		if !d.pushed {
			ex.pushAssert(d, c)
		}
		ex.st.pc = append(ex.st.pc, c)
		return
	}
	d := &dec{kind: dAssume, cond: c, lvl: ex.Solver.Level()}
	ex.trace = append(ex.trace, d)
	ex.pos++
	if v, ok := ex.evalModel(c); ok && v {
		ex.ModelHits++
	} else {
		r, m := ex.checkSide(c)
		if r == smt.Unsat {
			d.ok = false
			ex.endPath("assume")
		}
		if r == smt.Unknown {
			ex.C.UnknownBr++
		}
		ex.model = m
	}
	d.ok = true
	ex.pushAssert(d, c)
	ex.st.pc = append(ex.st.pc, c)
}

// Assert records an obligation. Obligations met between two decision points
// share the same path condition and are decided together by one query when the
// next new decision is made or the path ends (flush); a sat answer is then
// resolved obligation by obligation.
func (ex *Exec) Assert(c *term.T, label string, kind string, pos token.Pos) {
	if ex.replaying() {
		return // decided when this prefix was first explored
	}
	ex.C.Obligations++
	ex.sample(label, c)
	if c.IsTrue() {
		ex.C.Discharged++
		return
	}
	ex.pending = append(ex.pending, pendingObl{c, label, kind, pos})
	if c.IsFalse() || len(ex.pending) >= 64 {
		ex.flush()
	}
}

type pendingObl struct {
	c     *term.T
	label string
	kind  string
	pos   token.Pos
}

// flush decides the pending obligations under the current path condition.
func (ex *Exec) flush() {
	if len(ex.pending) == 0 {
		return
	}
	pend := ex.pending
	ex.pending = nil
	var cs []*term.T
	for _, p := range pend {
		cs = append(cs, p.c)
	}
	all := term.And(cs...)
	if !all.IsFalse() && len(pend) > 1 {
		r, _ := ex.Solver.CheckWith([]*term.T{term.Not(all)}, nil)
		if r == smt.Unsat {
			ex.C.Discharged += len(pend)
			return
		}
	}
	// resolve individually, in program order; a violated obligation is assumed
	// afterwards (as if the harness stopped caring about that case)
	for _, p := range pend {
		var r smt.Result
		var vals map[int]uint64
		if p.c.IsFalse() {
			r, vals = ex.Solver.CheckWith(nil, ex.st.inputs)
		} else {
			r, vals = ex.Solver.CheckWith([]*term.T{term.Not(p.c)}, ex.st.inputs)
		}
		switch r {
		case smt.Unsat:
			ex.C.Discharged++
		case smt.Unknown:
			ex.C.UnknownObl++
		default:
			ex.reportViolation(p.label, p.kind, p.pos, vals)
			n0 := len(ex.trace)
			ex.assumeNoFlush(p.c)
			if len(ex.trace) > n0 {
				ex.trace[n0].fromObl = true
			}
		}
	}
}

func (ex *Exec) sample(label string, c *term.T) {
	if c.IsConst() {
		return // only obligations that need the solver are written out as samples
	}
	if len(ex.Samples) < 12 {
		ex.Samples = append(ex.Samples, fmt.Sprintf("%s: pc(%d conjuncts) => %s", label, len(ex.st.pc), c.Short(160)))
	}
}

func (ex *Exec) inputVals(vals map[int]uint64) []InputVal {
	var out []InputVal
	for _, in := range ex.st.inputs {
		out = append(out, InputVal{Name: in.Name, Bits: in.W, Value: vals[in.ID]})
	}
	return out
}

func (ex *Exec) reportViolation(label, kind string, pos token.Pos, vals map[int]uint64) {
	if vals == nil {
		r, v := ex.Solver.CheckWith(nil, ex.st.inputs)
		if r != smt.Sat {
			// cannot produce a model: treat as inconclusive
			ex.C.UnknownObl++
			return
		}
		vals = v
	}
	p := ""
	if pos.IsValid() {
		p = ex.Prog.Fset.Position(pos).String()
	}
	key := kind + "|" + label + "|" + p
	ex.C.Violations++
	if ex.seenViol[key] {
		return
	}
	ex.seenViol[key] = true
	v := &Violation{Label: label, Kind: kind, Pos: p, Inputs: ex.inputVals(vals)}
	for _, d := range ex.trace[:min(ex.pos, len(ex.trace))] {
		if d.kind == dSched {
			v.Choices = append(v.Choices, d.choice)
		}
	}
	if ex.st.crashSt != nil {
		model := map[string]uint64{}
		for _, in := range ex.st.inputs {
			model[in.Name] = vals[in.ID]
		}
		v.Extra = ex.crashExtra(model)
	}
	for _, id := range ex.st.knownIDs {
		// a listed known finding: only the labels it names (all, if it names none)
		anyLabel := false
		for k := range ex.Cfg.Known {
			if strings.HasPrefix(k, "label:"+id+":") {
				anyLabel = true
			}
		}
		if !anyLabel || ex.Cfg.Known["label:"+id+":"+label] != "" {
			v.Known = id
			ex.KnownHit[id] = true
		}
	}
	ex.Violations = append(ex.Violations, v)
	if ex.Cfg.Verbose > 0 {
		fmt.Fprintf(os.Stderr, "VIOLATION candidate %s (%s) at %s\n", label, kind, p)
	}
}

// Concretize returns a concrete value for t, case-splitting over feasible values.
func (ex *Exec) Concretize(t *term.T, what string) uint64 {
	if t.IsConst() {
		return t.Val
	}
	ex.replayObl()
	if ex.replaying() {
		d := ex.trace[ex.pos]
		ex.pos++
		if d.kind != dConc || d.cond != t {
			panic("nondeterministic replay: concretize " + what)
		}
		v := d.vals[d.choice]
		c := term.Eq(t, term.Const(v, t.W))
		if !d.pushed {
			ex.pushAssert(d, c)
		}
		ex.st.pc = append(ex.st.pc, c)
		return v
	}
	ex.flush()
	d := &dec{kind: dConc, cond: t, lvl: ex.Solver.Level()}
	ex.StubsRun["concretize:"+what]++
	r, vals := ex.Solver.CheckWith(nil, []*term.T{t})
	if r != smt.Sat {
		if r == smt.Unknown {
			ex.C.UnknownBr++
			panic(unsupported("concretize: solver unknown for " + what))
		}
		ex.endPath("assume")
	}
	v := vals[t.ID]
	d.vals = []uint64{v}
	ex.trace = append(ex.trace, d)
	ex.pos++
	c := term.Eq(t, term.Const(v, t.W))
	if mv, ok := ex.evalModel(c); !ok || !mv {
		ex.model = nil
	}
	ex.pushAssert(d, c)
	ex.st.pc = append(ex.st.pc, c)
	return v
}

// ConcInt concretises a signed integer term.
func (ex *Exec) ConcInt(t *term.T, what string) int64 {
	v := ex.Concretize(t, what)
	return term.Const(v, t.W).Int()
}

// Choose makes an n-way case split without solver involvement.
func (ex *Exec) Choose(n int) int {
	if n <= 1 {
		return 0
	}
	if ex.Cfg.Concrete != nil {
		c := 0
		if ex.choicePos < len(ex.Cfg.Choices) {
			c = ex.Cfg.Choices[ex.choicePos]
		}
		ex.choicePos++
		if c >= n {
			c = 0
		}
		return c
	}
	ex.replayObl()
	if ex.replaying() {
		d := ex.trace[ex.pos]
		ex.pos++
		if d.kind != dSched || d.nalts != n {
			panic("nondeterministic replay: choose")
		}
		return d.choice
	}
	ex.flush()
	d := &dec{kind: dSched, nalts: n, lvl: ex.Solver.Level()}
	ex.trace = append(ex.trace, d)
	ex.pos++
	return 0
}

// NewInput creates a named nondeterministic input variable.
func (ex *Exec) NewInput(name string, w int) *term.T {
	k := ex.st.inputSeen[name]
	ex.st.inputSeen[name] = k + 1
	vn := fmt.Sprintf("%s!%d", sanitize(name), k)
	if ex.Cfg.Concrete != nil {
		return term.Const(ex.Cfg.Concrete[vn], w)
	}
	v := term.Var(vn, w)
	ex.st.inputs = append(ex.st.inputs, v)
	return v
}

// Fresh creates an internal (environment) variable; also part of the model.
func (ex *Exec) Fresh(prefix string, w int) *term.T {
	return ex.NewInput("env."+prefix, w)
}

func sanitize(s string) string {
	var sb strings.Builder
	for _, c := range s {
		if c >= 'a' && c <= 'z' || c >= 'A' && c <= 'Z' || c >= '0' && c <= '9' || c == '_' || c == '.' {
			sb.WriteRune(c)
		} else {
			sb.WriteRune('_')
		}
	}
	return sb.String()
}

func (ex *Exec) newState() *State {
	return &State{inputSeen: map[string]int{}, globals: map[*ssa.Global]*Value{},
		locks: map[*Value]*lockState{}, ghost: map[string]Value{}, flocks: map[string]*flockState{}, decided: map[*term.T]bool{}}
}

// Reach records a vacuity witness label; the first time a label is reached a
// model of the path condition is extracted.
func (ex *Exec) Reach(label string) {
	ex.Reached[label]++
	if ex.Reached[label] == 1 && ex.Cfg.WantWitness {
		r, vals := ex.Solver.CheckWith(nil, ex.st.inputs)
		if r == smt.Sat {
			w := &Witness{Label: label, Inputs: ex.inputVals(vals)}
			if ex.st.crashSt != nil {
				model := map[string]uint64{}
				for _, in := range ex.st.inputs {
					model[in.Name] = vals[in.ID]
				}
				w.Extra = ex.crashExtra(model)
			}
			ex.Witnesses[label] = w
		}
	}
}

func sortedKeys[V any](m map[string]V) []string {
	var ks []string
	for k := range m {
		ks = append(ks, k)
	}
	sort.Strings(ks)
	return ks
}
