package exec

import (
	"fmt"
	"os"
	"path/filepath"
	"sort"
	"strings"

	"gosym/term"
)

// FS is the symbolic file system: a flat table of files keyed by full path
// (concrete string or Rope), a set of directories, and an event log of every
// mutation (used by the crash models).
type FS struct {
	Files  []*fsEntry
	Dirs   map[string]bool
	Events []*FSEvent
	// crash exploration
	CrashArmed bool
	crashAt    int
	nInodes    int
}

type fsEntry struct {
	Path  Value // string | *Rope
	Inode *Inode
}

type Inode struct {
	ID     int
	Data   []*term.T
	Size   *term.T // nil: len(Data); otherwise a symbolic size <= len(Data)
	Mtime  Value   // time.Time value
	Synced int     // length known to be durable (tail-loss model)
	Opens  int
	cutDone bool
}

type FSEvent struct {
	Kind   string // create, append, truncate, fsync, rename, remove, mkdir, chtimes, dirsync
	Path   Value
	Path2  Value
	Inode  *Inode
	OldLen int
	NewLen int
}

type FileH struct {
	Inode  *Inode
	Path   Value
	Pos    int
	Flags  int
	Closed bool
	IsDir  bool
	Dir    string
}

type MmapH struct {
	Inode  *Inode
	Len    *term.T // nil: concrete N
	N      int
	Closed bool
}

func (ex *Exec) fs() *FS {
	if ex.st.fs == nil {
		ex.st.fs = &FS{Dirs: map[string]bool{"/": true}}
	}
	return ex.st.fs
}

func pathStr(v Value) string {
	switch v := v.(type) {
	case string:
		return v
	case *Rope:
		return v.String()
	}
	return fmt.Sprint(v)
}

func (in *Inode) sizeTerm() *term.T {
	if in.Size != nil {
		return in.Size
	}
	return mkInt(int64(len(in.Data)))
}

func pathEqual(a, b Value) *term.T {
	return equalValues(a, b)
}

func checkPath(p Value) {
	if s, ok := p.(string); ok && strings.Contains(s, "<") {
		panic(unsupported("file name built from an unmodelled symbolic format: " + s))
	}
}

func (ex *Exec) fsLookup(p Value) *fsEntry {
	checkPath(p)
	for _, e := range ex.fs().Files {
		if ex.Branch(pathEqual(e.Path, p)) {
			return e
		}
	}
	return nil
}

func dirOfPath(p Value) string {
	switch v := p.(type) {
	case string:
		return filepath.Dir(v)
	case *Rope:
		if first := v.parts[0]; first.t == nil {
			if i := strings.LastIndex(first.s, "/"); i >= 0 {
				if i == 0 {
					return "/"
				}
				return first.s[:i]
			}
		}
	}
	panic(unsupported("directory of symbolic path"))
}

func pathErr(op string, p Value, e Iface) Iface {
	return newErr(op+" "+pathStr(p), e)
}

func (ex *Exec) fsEvent(ev *FSEvent) {
	fs := ex.fs()
	fs.Events = append(fs.Events, ev)
	if fs.CrashArmed {
		ex.crashCheck()
	}
}

func (ex *Exec) mtimeNow() Value { return timeOfUs(ex.clockNow()) }

func (ex *Exec) concSize(in *Inode, what string) int {
	if in.Size == nil {
		return len(in.Data)
	}
	n := int(ex.ConcInt(in.Size, "file size for "+what))
	in.Data = in.Data[:n]
	in.Size = nil
	return n
}

const (
	oWRONLY = os.O_WRONLY
	oRDWR   = os.O_RDWR
	oAPPEND = os.O_APPEND
	oCREATE = os.O_CREATE
	oEXCL   = os.O_EXCL
	oTRUNC  = os.O_TRUNC
)

func (ex *Exec) fsOpenFile(p Value, flags int) Value {
	fs := ex.fs()
	if s, ok := p.(string); ok && fs.Dirs[filepath.Clean(s)] {
		return Tuple{&Native{Kind: "file", Data: &FileH{IsDir: true, Dir: filepath.Clean(s), Path: p}}, Iface{}}
	}
	e := ex.fsLookup(p)
	if e == nil {
		if flags&oCREATE == 0 {
			return Tuple{(*Native)(nil), pathErr("open", p, sentinel("file does not exist"))}
		}
		if !fs.Dirs[dirOfPath(p)] {
			return Tuple{(*Native)(nil), pathErr("open", p, sentinel("file does not exist"))}
		}
		fs.nInodes++
		in := &Inode{ID: fs.nInodes, Mtime: ex.mtimeNow()}
		e = &fsEntry{Path: p, Inode: in}
		fs.Files = append(fs.Files, e)
		ex.fsEvent(&FSEvent{Kind: "create", Path: p, Inode: in})
	} else {
		if flags&oCREATE != 0 && flags&oEXCL != 0 {
			return Tuple{(*Native)(nil), pathErr("open", p, sentinel("file already exists"))}
		}
		if flags&oTRUNC != 0 && flags&(oWRONLY|oRDWR) != 0 {
			old := ex.concSize(e.Inode, "truncate")
			e.Inode.Data = nil
			e.Inode.Synced = 0
			e.Inode.Mtime = ex.mtimeNow()
			ex.fsEvent(&FSEvent{Kind: "truncate", Path: p, Inode: e.Inode, OldLen: old})
		}
	}
	e.Inode.Opens++
	return Tuple{&Native{Kind: "file", Data: &FileH{Inode: e.Inode, Path: p, Flags: flags}}, Iface{}}
}

func fileH(v Value) *FileH {
	n, ok := v.(*Native)
	if !ok || n == nil {
		return nil
	}
	return n.Data.(*FileH)
}

func (ex *Exec) fileWrite(fr *Frame, h *FileH, bs []*term.T) Value {
	if h == nil {
		return Tuple{mkInt(0), sentinel("invalid argument")}
	}
	if h.Closed {
		return Tuple{mkInt(0), pathErr("write", h.Path, sentinel("file already closed"))}
	}
	if h.Flags&(oWRONLY|oRDWR) == 0 {
		return Tuple{mkInt(0), pathErr("write", h.Path, sentinel("bad file descriptor"))}
	}
	if len(bs) == 0 {
		return Tuple{mkInt(0), Iface{}}
	}
	in := h.Inode
	n := ex.concSize(in, "write")
	pos := h.Pos
	if h.Flags&oAPPEND != 0 {
		pos = n
	}
	if pos != n {
		// in-place overwrite / sparse write
		for len(in.Data) < pos+len(bs) {
			in.Data = append(in.Data, mkByte(0))
		}
		copy(in.Data[pos:], bs)
	} else {
		in.Data = append(in.Data[:n:n], bs...)
	}
	if ex.st.sched != nil && ex.Cfg.Bounds["split_writes"] == 1 && len(bs) > 1 && pos == n && len(ex.st.sched.gs) > 1 {
		// a write becomes visible in two steps (e.g. at a page boundary): between
		// them another goroutine may observe a prefix of the appended bytes
		t := ex.NewInput("split", 64)
		ex.Assume(term.And(term.Sle(mkInt(1), t), term.Slt(t, mkInt(int64(len(bs))))))
		in.Size = term.Add(mkInt(int64(n)), t)
		ex.yield("fs-mid-write")
		in.Size = nil
	}
	h.Pos = pos + len(bs)
	in.Mtime = ex.mtimeNow()
	ex.fsEvent(&FSEvent{Kind: "append", Path: h.Path, Inode: in, OldLen: n, NewLen: len(in.Data)})
	return Tuple{mkInt(int64(len(bs))), Iface{}}
}

// readAtCore implements the documented ReadAt contract on (data, size):
// n = min(len(p), max(0, size-off)); io.EOF iff n < len(p).
func (ex *Exec) readAtCore(fr *Frame, data []*term.T, size *term.T, bufS Slice, offT *term.T, negErr, beyondErr Value) Value {
	buf := bufS.A
	var off int64
	if offT.IsConst() {
		off = offT.Int()
	} else {
		// a symbolic read position: decide the error classes symbolically, then
		// case-split on the position only when bytes are actually read
		if ex.Branch(term.Slt(offT, mkInt(0))) {
			return Tuple{mkInt(0), negErr}
		}
		if beyondErr != nil && ex.Branch(term.Slt(size, offT)) {
			return Tuple{mkInt(0), beyondErr}
		}
		if len(buf) == 0 {
			return Tuple{mkInt(0), Iface{}}
		}
		if ex.Branch(term.Sle(size, offT)) {
			return Tuple{mkInt(0), sentinel("EOF")}
		}
		off = ex.ConcInt(offT, "read position")
	}
	if off < 0 {
		return Tuple{mkInt(0), negErr}
	}
	if beyondErr != nil {
		if ex.Branch(term.Slt(size, mkInt(off))) {
			return Tuple{mkInt(0), beyondErr}
		}
	}
	if len(buf) == 0 {
		return Tuple{mkInt(0), Iface{}}
	}
	ln := int64(len(buf))
	if bufS.SymLen != nil {
		// oversized buffer: longer than the materialised prefix, which must itself be
		// longer than what the file can still deliver => the read is short
		if !ex.Branch(term.Slt(term.Sub(size, mkInt(off)), mkInt(ln))) {
			panic(unsupported("oversized read buffer not longer than the rest of the file (raise alloc_cap)"))
		}
		avail := term.Sub(size, mkInt(off))
		nT := term.Ite(term.Slt(avail, mkInt(0)), mkInt(0), avail)
		for i := int64(0); i < ln && off+i < int64(len(data)); i++ {
			old := buf[i].(*term.T)
			buf[i] = term.Ite(term.Slt(mkInt(i), nT), data[off+i], old)
		}
		return Tuple{nT, sentinel("EOF")}
	}
	if size.IsConst() {
		avail := size.Int() - off
		if avail < 0 {
			avail = 0
		}
		n := min(avail, ln)
		for i := int64(0); i < n; i++ {
			buf[i] = data[off+i]
		}
		if n < ln {
			return Tuple{mkInt(n), sentinel("EOF")}
		}
		return Tuple{mkInt(n), Iface{}}
	}
	// symbolic size
	full := term.Sle(mkInt(off+ln), size)
	if ex.Branch(full) {
		for i := int64(0); i < ln; i++ {
			buf[i] = data[off+i]
		}
		return Tuple{mkInt(ln), Iface{}}
	}
	// short read: n = max(0, size-off) < len(buf)
	avail := term.Sub(size, mkInt(off))
	nT := term.Ite(term.Slt(avail, mkInt(0)), mkInt(0), avail)
	for i := int64(0); i < ln && off+i < int64(len(data)); i++ {
		old := buf[i].(*term.T)
		buf[i] = term.Ite(term.Slt(mkInt(i), nT), data[off+i], old)
	}
	return Tuple{nT, sentinel("EOF")}
}

func (ex *Exec) fileReadAt(fr *Frame, h *FileH, buf Slice, off *term.T) Value {
	if h == nil || h.Closed {
		return Tuple{mkInt(0), newErr("read: file already closed", sentinel("file already closed"))}
	}
	in := h.Inode
	return ex.readAtCore(fr, in.Data, in.sizeTerm(), buf, off, newErr("readat: negative offset"), nil)
}

// fileReadFull models io.ReadFull(f, buf) on a file handle.
func fileReadFull(ex *Exec, fr *Frame, n *Native, buf Slice) Value {
	h := n.Data.(*FileH)
	if h.Closed {
		return Tuple{mkInt(0), newErr("read: file already closed", sentinel("file already closed"))}
	}
	if len(buf.A) == 0 {
		return Tuple{mkInt(0), Iface{}}
	}
	in := h.Inode
	size := in.sizeTerm()
	ln := int64(len(buf.A))
	pos := int64(h.Pos)
	if ex.Branch(term.Sle(mkInt(pos+ln), size)) {
		for i := int64(0); i < ln; i++ {
			buf.A[i] = in.Data[pos+i]
		}
		h.Pos += int(ln)
		return Tuple{mkInt(ln), Iface{}}
	}
	if ex.Branch(term.Sle(size, mkInt(pos))) {
		return Tuple{mkInt(0), sentinel("EOF")}
	}
	avail := term.Sub(size, mkInt(pos))
	for i := int64(0); i < ln && pos+i < int64(len(in.Data)); i++ {
		buf.A[i] = term.Ite(term.Slt(mkInt(i), avail), in.Data[pos+i], buf.A[i].(*term.T))
	}
	// the position after a short read is the end of the file
	h.Pos = len(in.Data)
	return Tuple{avail, sentinel("unexpected EOF")}
}

func fileInfo(in *Inode, name Value) Value {
	return Iface{T: natType("fileinfo"), V: &Native{Kind: "fileinfo", Data: &infoV{size: in.sizeTerm(), mtime: copyVal(in.Mtime), name: name}}}
}

type infoV struct {
	size  *term.T
	mtime Value
	name  Value
	isDir bool
}

func (ex *Exec) fsRemove(p Value) Value {
	fs := ex.fs()
	for i, e := range fs.Files {
		if ex.Branch(pathEqual(e.Path, p)) {
			fs.Files = append(append([]*fsEntry{}, fs.Files[:i]...), fs.Files[i+1:]...)
			ex.fsEvent(&FSEvent{Kind: "remove", Path: p, Inode: e.Inode})
			return Iface{}
		}
	}
	return pathErr("remove", p, sentinel("file does not exist"))
}

func (ex *Exec) fsRename(oldp, newp Value) Value {
	fs := ex.fs()
	src := ex.fsLookup(oldp)
	if src == nil {
		return newErr("rename "+pathStr(oldp), sentinel("file does not exist"))
	}
	if !fs.Dirs[dirOfPath(newp)] {
		return newErr("rename "+pathStr(newp), sentinel("file does not exist"))
	}
	// replace an existing target
	for i, e := range fs.Files {
		if e == src {
			continue
		}
		if ex.Branch(pathEqual(e.Path, newp)) {
			fs.Files = append(append([]*fsEntry{}, fs.Files[:i]...), fs.Files[i+1:]...)
			break
		}
	}
	// copy-on-write of the entry (older handles keep the inode)
	for i, e := range fs.Files {
		if e == src {
			fs.Files[i] = &fsEntry{Path: newp, Inode: src.Inode}
		}
	}
	ex.fsEvent(&FSEvent{Kind: "rename", Path: oldp, Path2: newp, Inode: src.Inode})
	return Iface{}
}

func baseName(p Value, dir string) (Value, bool) {
	pre := dir + "/"
	if dir == "/" {
		pre = "/"
	}
	switch v := p.(type) {
	case string:
		if strings.HasPrefix(v, pre) && !strings.Contains(v[len(pre):], "/") {
			return v[len(pre):], true
		}
	case *Rope:
		if first := v.parts[0]; first.t == nil && strings.HasPrefix(first.s, pre) {
			rest := v.Substr(len(pre), v.Len())
			if s, ok := rest.(string); ok {
				return s, !strings.Contains(s, "/")
			}
			for _, pt := range rest.(*Rope).parts {
				if pt.t == nil && strings.Contains(pt.s, "/") {
					return nil, false
				}
			}
			return rest, true
		}
	}
	return nil, false
}

func (ex *Exec) nameLess(a, b Value) bool {
	as, aok := a.(string)
	bs, bok := b.(string)
	if aok && bok {
		return as < bs
	}
	return ex.Branch(ropeLess(toRope(a), toRope(b)))
}

func (ex *Exec) fsReadDir(dir string) Value {
	fs := ex.fs()
	dir = filepath.Clean(dir)
	if !fs.Dirs[dir] {
		return Tuple{Slice{}, pathErr("open", dir, sentinel("file does not exist"))}
	}
	type ent struct {
		name  Value
		inode *Inode
		isDir bool
	}
	var ents []ent
	for _, e := range fs.Files {
		if n, ok := baseName(e.Path, dir); ok {
			ents = append(ents, ent{name: n, inode: e.Inode})
		}
	}
	var subdirs []string
	for d := range fs.Dirs {
		if d != dir && filepath.Dir(d) == dir {
			subdirs = append(subdirs, filepath.Base(d))
		}
	}
	sort.Strings(subdirs)
	for _, d := range subdirs {
		ents = append(ents, ent{name: d, isDir: true})
	}
	// insertion sort with symbolic comparisons
	for i := 1; i < len(ents); i++ {
		for j := i; j > 0 && ex.nameLess(ents[j].name, ents[j-1].name); j-- {
			ents[j], ents[j-1] = ents[j-1], ents[j]
		}
	}
	out := make([]Value, len(ents))
	for i, e := range ents {
		iv := &infoV{name: e.name, isDir: e.isDir}
		if e.inode != nil {
			iv.size = e.inode.sizeTerm()
			iv.mtime = copyVal(e.inode.Mtime)
		}
		out[i] = Iface{T: natType("dirent"), V: &Native{Kind: "dirent", Data: iv}}
	}
	return Tuple{Slice{A: out}, Iface{}}
}

func init() {
	reg("os.OpenFile", func(ex *Exec, fr *Frame, a []Value) Value {
		flags, ok := constInt(a[1])
		if !ok {
			panic(unsupported("os.OpenFile with symbolic flags"))
		}
		ex.crashPoint(fr, "openfile", nil, nil)
		return ex.fsOpenFile(a[0], int(flags))
	})
	reg("os.Open", func(ex *Exec, fr *Frame, a []Value) Value {
		return ex.fsOpenFile(a[0], os.O_RDONLY)
	})
	reg("os.Create", func(ex *Exec, fr *Frame, a []Value) Value {
		return ex.fsOpenFile(a[0], os.O_RDWR|os.O_CREATE|os.O_TRUNC)
	})
	reg("(*os.File).Write", func(ex *Exec, fr *Frame, a []Value) Value {
		if h := fileH(a[0]); h != nil && !h.Closed && h.Inode != nil {
			ex.crashPoint(fr, "write", h.Inode, bytesOf(a[1]))
		}
		return ex.fileWrite(fr, fileH(a[0]), bytesOf(a[1]))
	})
	reg("(*os.File).ReadAt", func(ex *Exec, fr *Frame, a []Value) Value {
		return ex.fileReadAt(fr, fileH(a[0]), a[1].(Slice), a[2].(*term.T))
	})
	reg("(*os.File).Seek", func(ex *Exec, fr *Frame, a []Value) Value {
		h := fileH(a[0])
		off, ok1 := constInt(a[1])
		wh, ok2 := constInt(a[2])
		if !ok1 || !ok2 {
			panic(unsupported("Seek with symbolic arguments"))
		}
		switch wh {
		case 0:
			h.Pos = int(off)
		case 1:
			h.Pos += int(off)
		case 2:
			h.Pos = ex.concSize(h.Inode, "seek") + int(off)
		}
		return Tuple{mkInt(int64(h.Pos)), Iface{}}
	})
	reg("(*os.File).Stat", func(ex *Exec, fr *Frame, a []Value) Value {
		h := fileH(a[0])
		if h == nil || h.Closed {
			return Tuple{Iface{}, newErr("stat: file already closed", sentinel("file already closed"))}
		}
		return Tuple{fileInfo(h.Inode, h.Path), Iface{}}
	})
	reg("(*os.File).Sync", func(ex *Exec, fr *Frame, a []Value) Value {
		ex.crashPoint(fr, "sync", nil, nil)
		h := fileH(a[0])
		if h == nil || h.Closed {
			return newErr("sync: file already closed", sentinel("file already closed"))
		}
		if h.IsDir {
			ex.fsEvent(&FSEvent{Kind: "dirsync", Path: h.Dir})
			return Iface{}
		}
		n := ex.concSize(h.Inode, "fsync")
		h.Inode.Synced = n
		ex.fsEvent(&FSEvent{Kind: "fsync", Path: h.Path, Inode: h.Inode, NewLen: n})
		return Iface{}
	})
	reg("(*os.File).Close", func(ex *Exec, fr *Frame, a []Value) Value {
		h := fileH(a[0])
		if h == nil {
			return sentinel("invalid argument")
		}
		if h.Closed {
			return newErr("close: file already closed", sentinel("file already closed"))
		}
		h.Closed = true
		if h.Inode != nil {
			h.Inode.Opens--
		}
		return Iface{}
	})
	reg("(*os.File).Name", func(ex *Exec, fr *Frame, a []Value) Value { return fileH(a[0]).Path })
	reg("os.Stat", func(ex *Exec, fr *Frame, a []Value) Value {
		if s, ok := a[0].(string); ok && ex.fs().Dirs[filepath.Clean(s)] {
			return Tuple{Iface{T: natType("fileinfo"), V: &Native{Kind: "fileinfo", Data: &infoV{size: mkInt(4096), mtime: timeOfUs(mkInt(0)), name: s, isDir: true}}}, Iface{}}
		}
		e := ex.fsLookup(a[0])
		if e == nil {
			return Tuple{Iface{}, pathErr("stat", a[0], sentinel("file does not exist"))}
		}
		return Tuple{fileInfo(e.Inode, a[0]), Iface{}}
	})
	reg("native:fileinfo.Size", func(ex *Exec, fr *Frame, a []Value) Value {
		return a[0].(*Native).Data.(*infoV).size
	})
	reg("native:fileinfo.ModTime", func(ex *Exec, fr *Frame, a []Value) Value {
		return copyVal(a[0].(*Native).Data.(*infoV).mtime)
	})
	reg("native:fileinfo.IsDir", func(ex *Exec, fr *Frame, a []Value) Value {
		return mkBool(a[0].(*Native).Data.(*infoV).isDir)
	})
	reg("native:fileinfo.Name", func(ex *Exec, fr *Frame, a []Value) Value {
		return a[0].(*Native).Data.(*infoV).name
	})
	reg("native:dirent.Name", func(ex *Exec, fr *Frame, a []Value) Value {
		return a[0].(*Native).Data.(*infoV).name
	})
	reg("native:dirent.IsDir", func(ex *Exec, fr *Frame, a []Value) Value {
		return mkBool(a[0].(*Native).Data.(*infoV).isDir)
	})
	reg("os.Remove", func(ex *Exec, fr *Frame, a []Value) Value {
		ex.crashPoint(fr, "remove", nil, nil)
		return ex.fsRemove(a[0])
	})
	reg("os.Rename", func(ex *Exec, fr *Frame, a []Value) Value {
		ex.crashPoint(fr, "rename", nil, nil)
		return ex.fsRename(a[0], a[1])
	})
	reg("os.ReadDir", func(ex *Exec, fr *Frame, a []Value) Value { return ex.fsReadDir(strOf(a[0])) })
	reg("os.MkdirAll", func(ex *Exec, fr *Frame, a []Value) Value {
		ex.crashPoint(fr, "mkdirall", nil, nil)
		d := filepath.Clean(strOf(a[0]))
		fs := ex.fs()
		for p := d; p != "/" && p != "."; p = filepath.Dir(p) {
			if !fs.Dirs[p] {
				fs.Dirs[p] = true
				ex.fsEvent(&FSEvent{Kind: "mkdir", Path: p})
			}
		}
		return Iface{}
	})
	reg("os.Chtimes", func(ex *Exec, fr *Frame, a []Value) Value {
		ex.crashPoint(fr, "chtimes", nil, nil)
		e := ex.fsLookup(a[0])
		if e == nil {
			return pathErr("chtimes", a[0], sentinel("file does not exist"))
		}
		e.Inode.Mtime = copyVal(a[2])
		ex.fsEvent(&FSEvent{Kind: "chtimes", Path: a[0], Inode: e.Inode})
		return Iface{}
	})
	reg("io.Copy", func(ex *Exec, fr *Frame, a []Value) Value {
		dst, ok1 := a[0].(Iface).V.(*Native)
		src, ok2 := a[1].(Iface).V.(*Native)
		if !ok1 || !ok2 || dst.Kind != "file" || src.Kind != "file" {
			panic(unsupported("io.Copy on non-file operands"))
		}
		sh, dh := src.Data.(*FileH), dst.Data.(*FileH)
		n := ex.concSize(sh.Inode, "copy")
		if sh.Pos >= n {
			ex.crashPoint(fr, "copy", nil, nil)
			return Tuple{mkInt(0), Iface{}}
		}
		bs := append([]*term.T{}, sh.Inode.Data[sh.Pos:n]...)
		ex.crashPoint(fr, "copy", dh.Inode, bs)
		sh.Pos = n
		r := ex.fileWrite(fr, dh, bs).(Tuple)
		return Tuple{r[0], r[1]}
	})

	// golang.org/x/exp/mmap, modelled from its source (see DESIGN §2.6)
	reg("golang.org/x/exp/mmap.Open", func(ex *Exec, fr *Frame, a []Value) Value {
		e := ex.fsLookup(a[0])
		if e == nil {
			return Tuple{(*Native)(nil), pathErr("open", a[0], sentinel("file does not exist"))}
		}
		m := &MmapH{Inode: e.Inode}
		if e.Inode.Size != nil {
			m.Len = e.Inode.Size
		} else {
			m.N = len(e.Inode.Data)
		}
		return Tuple{&Native{Kind: "mmap", Data: m}, Iface{}}
	})
	reg("(*golang.org/x/exp/mmap.ReaderAt).ReadAt", func(ex *Exec, fr *Frame, a []Value) Value {
		n, _ := a[0].(*Native)
		if n == nil {
			ex.goPanicf(fr, "nil pointer dereference (mmap.ReaderAt)")
		}
		m := n.Data.(*MmapH)
		if m.Closed {
			return Tuple{mkInt(0), newErr("mmap: closed")}
		}
		size := m.Len
		if size == nil {
			size = mkInt(int64(m.N))
		}
		data := m.Inode.Data
		return ex.readAtCore(fr, data, size, a[1].(Slice), a[2].(*term.T), newErr("mmap: invalid ReadAt offset"), newErr("mmap: invalid ReadAt offset"))
	})
	reg("(*golang.org/x/exp/mmap.ReaderAt).Close", func(ex *Exec, fr *Frame, a []Value) Value {
		n, _ := a[0].(*Native)
		if n == nil {
			ex.goPanicf(fr, "nil pointer dereference (mmap.ReaderAt)")
		}
		n.Data.(*MmapH).Closed = true
		return Iface{}
	})
	reg("(*golang.org/x/exp/mmap.ReaderAt).Len", func(ex *Exec, fr *Frame, a []Value) Value {
		m := a[0].(*Native).Data.(*MmapH)
		if m.Len != nil {
			return m.Len
		}
		return mkInt(int64(m.N))
	})
}
