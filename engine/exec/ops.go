package exec

import (
	"fmt"
	"go/token"
	"go/types"

	"golang.org/x/tools/go/ssa"

	"gosym/term"
)

func (ex *Exec) binop(fr *Frame, op token.Token, xt types.Type, x, y Value, yt types.Type) Value {
	switch op {
	case token.EQL:
		return equalValues(x, y)
	case token.NEQ:
		return term.Not(equalValues(x, y))
	}
	switch xv := x.(type) {
	case string, *Rope:
		switch op {
		case token.ADD:
			return ropeConcat(x, y)
		case token.LSS, token.LEQ, token.GTR, token.GEQ:
			xs, ok1 := x.(string)
			ys, ok2 := y.(string)
			if !ok1 || !ok2 {
				panic(unsupported("ordering of symbolic strings"))
			}
			switch op {
			case token.LSS:
				return mkBool(xs < ys)
			case token.LEQ:
				return mkBool(xs <= ys)
			case token.GTR:
				return mkBool(xs > ys)
			default:
				return mkBool(xs >= ys)
			}
		}
		panic(unsupported("string op " + op.String()))
	case floatVal:
		panic(unsupported("floating point arithmetic"))
	case *term.T:
		yv := y.(*term.T)
		signed := isSigned(xt)
		if xv.W == 0 {
			switch op {
			case token.AND, token.LAND:
				return term.And(xv, yv)
			case token.OR, token.LOR:
				return term.Or(xv, yv)
			}
			panic(unsupported("bool op " + op.String()))
		}
		switch op {
		case token.ADD:
			return term.Add(xv, yv)
		case token.SUB:
			return term.Sub(xv, yv)
		case token.MUL:
			return term.Mul(xv, yv)
		case token.QUO, token.REM:
			if !yv.IsConst() {
				if ex.Branch(term.Eq(yv, term.Const(0, yv.W))) {
					ex.goPanicf(fr, "integer divide by zero")
				}
			} else if yv.Val == 0 {
				ex.goPanicf(fr, "integer divide by zero")
			}
			if op == token.QUO {
				if signed {
					return term.SDiv(xv, yv)
				}
				return term.UDiv(xv, yv)
			}
			if signed {
				return term.SRem(xv, yv)
			}
			return term.URem(xv, yv)
		case token.AND:
			return term.BAnd(xv, yv)
		case token.OR:
			return term.BOr(xv, yv)
		case token.XOR:
			return term.BXor(xv, yv)
		case token.AND_NOT:
			return term.BAnd(xv, term.BNot(yv))
		case token.SHL, token.SHR:
			return ex.shift(fr, op, xv, signed, yv, isSigned(yt))
		case token.LSS:
			if signed {
				return term.Slt(xv, yv)
			}
			return term.Ult(xv, yv)
		case token.LEQ:
			if signed {
				return term.Sle(xv, yv)
			}
			return term.Ule(xv, yv)
		case token.GTR:
			if signed {
				return term.Slt(yv, xv)
			}
			return term.Ult(yv, xv)
		case token.GEQ:
			if signed {
				return term.Sle(yv, xv)
			}
			return term.Ule(yv, xv)
		}
	}
	panic(unsupported(fmt.Sprintf("binop %s on %T", op, x)))
}

func (ex *Exec) shift(fr *Frame, op token.Token, x *term.T, xsigned bool, y *term.T, ysigned bool) Value {
	w := x.W
	if ysigned {
		neg := term.Slt(y, term.Const(0, y.W))
		if ex.Branch(neg) {
			ex.goPanicf(fr, "negative shift amount")
		}
	}
	// bring the count to the width of x, saturating
	var cnt *term.T
	var big *term.T = term.False
	switch {
	case y.W == w:
		cnt = y
	case y.W < w:
		cnt = term.ZExt(y, w)
	default:
		big = term.Not(term.Eq(term.Extract(y, y.W-1, w), term.Const(0, y.W-w)))
		cnt = term.Extract(y, w-1, 0)
	}
	var r *term.T
	switch {
	case op == token.SHL:
		r = term.Shl(x, cnt)
	case xsigned:
		r = term.AShr(x, cnt)
	default:
		r = term.LShr(x, cnt)
	}
	if big != term.False {
		var sat *term.T
		if op == token.SHR && xsigned {
			sat = term.AShr(x, term.Const(uint64(w-1), w))
		} else {
			sat = term.Const(0, w)
		}
		r = term.Ite(big, sat, r)
	}
	return r
}

func (ex *Exec) convert(fr *Frame, from, to types.Type, x Value) Value {
	fu, tu := from.Underlying(), to.Underlying()
	switch xv := x.(type) {
	case *term.T:
		if isInteger(to) {
			tw := width(to)
			switch {
			case xv.W == tw:
				return xv
			case xv.W > tw:
				return term.Extract(xv, tw-1, 0)
			case isSigned(from):
				return term.SExt(xv, tw)
			default:
				return term.ZExt(xv, tw)
			}
		}
		if isString(to) {
			// string(rune)
			if xv.IsConst() {
				return string(rune(xv.Int()))
			}
			panic(unsupported("string(symbolic rune)"))
		}
		if b, ok := tu.(*types.Basic); ok && b.Info()&types.IsFloat != 0 {
			return floatVal{}
		}
		if b, ok := tu.(*types.Basic); ok && b.Kind() == types.UnsafePointer {
			panic(unsupported("integer to unsafe.Pointer"))
		}
	case floatVal:
		if b, ok := tu.(*types.Basic); ok && b.Info()&types.IsFloat != 0 {
			return x
		}
		panic(unsupported("float to integer conversion"))
	case string:
		if isString(to) {
			return x
		}
		if s, ok := tu.(*types.Slice); ok {
			if width(s.Elem()) == 8 {
				a := make([]Value, len(xv))
				for i := 0; i < len(xv); i++ {
					a[i] = mkByte(xv[i])
				}
				return Slice{A: a}
			}
		}
	case *Rope:
		if isString(to) {
			return x
		}
	case Slice:
		if isString(to) {
			bs, ok := concreteBytes(xv)
			if !ok {
				return symStringOf(bytesOf(xv))
			}
			return string(bs)
		}
		if _, ok := tu.(*types.Slice); ok {
			return x
		}
	case *Value:
		// pointer <-> unsafe.Pointer, *T -> *U
		return x
	}
	if types.Identical(fu, tu) {
		return x
	}
	panic(unsupported(fmt.Sprintf("convert %v -> %v (%T)", from, to, x)))
}

// ---------------------------------------------------------------- maps

func (ex *Exec) mapFind(m *Map, k Value) *mapEntry {
	if m == nil {
		return nil
	}
	for _, e := range m.Entries {
		c := equalValues(e.K, k)
		if ex.Branch(c) {
			return e
		}
	}
	return nil
}

func (ex *Exec) mapUpdate(m *Map, k, v Value) {
	if e := ex.mapFind(m, k); e != nil {
		e.V = v
		return
	}
	m.Entries = append(m.Entries, &mapEntry{K: copyVal(k), V: v})
}

func (ex *Exec) mapDelete(m *Map, k Value) {
	if m == nil {
		return
	}
	for i, e := range m.Entries {
		if ex.Branch(equalValues(e.K, k)) {
			m.Entries = append(append([]*mapEntry{}, m.Entries[:i]...), m.Entries[i+1:]...)
			return
		}
	}
}

func (ex *Exec) lookup(fr *Frame, in *ssa.Lookup) Value {
	x := ex.get(fr, in.X)
	switch x := x.(type) {
	case *Map:
		e := ex.mapFind(x, ex.get(fr, in.Index))
		var v Value
		if e != nil {
			v = copyVal(e.V)
		} else {
			v = zero(in.X.Type().Underlying().(*types.Map).Elem())
		}
		if in.CommaOk {
			return Tuple{v, mkBool(e != nil)}
		}
		return v
	case string:
		i := ex.indexArg(fr, ex.get(fr, in.Index), in.Index.Type(), len(x))
		return mkByte(x[i])
	}
	panic(unsupported(fmt.Sprintf("Lookup on %T", x)))
}

type iter struct {
	entries []*mapEntry
	m       *Map
	str     string
	isStr   bool
	i       int
}

func (it *iter) next() Value {
	if it.isStr {
		if it.i >= len(it.str) {
			return Tuple{term.False, mkInt(0), term.Const(0, 32)}
		}
		// bytes only (ASCII); multi-byte runes are not modelled
		c := it.str[it.i]
		if c >= 0x80 {
			panic(unsupported("range over non-ASCII string"))
		}
		r := Tuple{term.True, mkInt(int64(it.i)), term.Const(uint64(c), 32)}
		it.i++
		return r
	}
	for it.i < len(it.entries) {
		e := it.entries[it.i]
		it.i++
		// skip entries deleted during iteration
		live := false
		for _, c := range it.m.Entries {
			if c == e {
				live = true
				break
			}
		}
		if live {
			return Tuple{term.True, copyVal(e.K), copyVal(e.V)}
		}
	}
	var kz, vz Value
	if it.m != nil {
		kz, vz = zero(it.m.KT), zero(it.m.VT)
	}
	return Tuple{term.False, kz, vz}
}

func (ex *Exec) rangeIter(fr *Frame, in *ssa.Range) Value {
	x := ex.get(fr, in.X)
	switch x := x.(type) {
	case *Map:
		if x == nil {
			return &iter{}
		}
		// iteration order: the order variable of the path (insertion order, or a
		// rotation chosen by the explorer when order exploration is enabled)
		ents := append([]*mapEntry{}, x.Entries...)
		if ex.Cfg.Bounds["map_orders"] > 0 && len(ents) > 1 && len(ents) <= ex.Cfg.Bounds["map_orders"] {
			ents = ex.permute(ents)
		}
		return &iter{entries: ents, m: x}
	case string:
		return &iter{str: x, isStr: true}
	}
	panic(unsupported(fmt.Sprintf("Range over %T", x)))
}

// permute picks one permutation of the entries (every permutation is explored).
func (ex *Exec) permute(ents []*mapEntry) []*mapEntry {
	out := make([]*mapEntry, 0, len(ents))
	rest := append([]*mapEntry{}, ents...)
	for len(rest) > 0 {
		i := ex.Choose(len(rest))
		out = append(out, rest[i])
		rest = append(rest[:i:i], rest[i+1:]...)
	}
	return out
}

// ---------------------------------------------------------------- builtins

func (ex *Exec) callBuiltin(fr *Frame, b *ssa.Builtin, args []Value, call *ssa.CallCommon) Value {
	switch b.Name() {
	case "len":
		switch x := args[0].(type) {
		case Slice:
			if x.SymLen != nil {
				return x.SymLen
			}
			return mkInt(int64(len(x.A)))
		case string:
			return mkInt(int64(len(x)))
		case *Rope:
			return mkInt(int64(x.Len()))
		case *Map:
			if x == nil {
				return mkInt(0)
			}
			return mkInt(int64(len(x.Entries)))
		case Array:
			return mkInt(int64(len(x)))
		case *Value:
			return mkInt(int64(len((*x).(Array))))
		case *Chan:
			if x == nil {
				return mkInt(0)
			}
			return mkInt(int64(len(x.buf)))
		}
	case "cap":
		switch x := args[0].(type) {
		case Slice:
			return mkInt(int64(cap(x.A)))
		case Array:
			return mkInt(int64(len(x)))
		case *Chan:
			return mkInt(int64(x.capacity))
		}
	case "append":
		dst := args[0].(Slice)
		dst.mustConcrete("append")
		var src []Value
		switch s := args[1].(type) {
		case Slice:
			src = s.A
		case string:
			for i := 0; i < len(s); i++ {
				src = append(src, mkByte(s[i]))
			}
		}
		if len(src) == 0 {
			return dst
		}
		n := len(dst.A)
		var out []Value
		if n+len(src) <= cap(dst.A) {
			out = dst.A[:n+len(src)]
		} else {
			nc := 2 * cap(dst.A)
			if nc < n+len(src) {
				nc = n + len(src)
			}
			out = make([]Value, n+len(src), nc)
			copy(out, dst.A)
		}
		for i, v := range src {
			out[n+i] = copyVal(v)
		}
		return Slice{A: out}
	case "copy":
		dst := args[0].(Slice)
		dst.mustConcrete("copy")
		if sl, ok := args[1].(Slice); ok {
			sl.mustConcrete("copy")
		}
		var src []Value
		switch s := args[1].(type) {
		case Slice:
			src = s.A
		case string:
			for i := 0; i < len(s); i++ {
				src = append(src, mkByte(s[i]))
			}
		}
		n := min(len(dst.A), len(src))
		// handle overlap like the builtin
		tmp := make([]Value, n)
		for i := 0; i < n; i++ {
			tmp[i] = copyVal(src[i])
		}
		copy(dst.A, tmp)
		return mkInt(int64(n))
	case "delete":
		ex.mapDelete(args[0].(*Map), args[1])
		return nil
	case "close":
		ex.chanClose(fr, args[0].(*Chan))
		return nil
	case "max", "min":
		signed := true
		if call != nil {
			signed = isSigned(call.Args[0].Type())
		}
		r := args[0].(*term.T)
		for _, a := range args[1:] {
			at := a.(*term.T)
			var lt *term.T
			if signed {
				lt = term.Slt(r, at)
			} else {
				lt = term.Ult(r, at)
			}
			if b.Name() == "max" {
				r = term.Ite(lt, at, r)
			} else {
				r = term.Ite(lt, r, at)
			}
		}
		return r
	case "panic":
		panic(&goPanic{val: args[0], desc: "panic: " + describe(args[0]), pos: ex.posOf(fr)})
	case "recover":
		if fr.isDeferred && fr.caller != nil && fr.caller.panicking != nil {
			p := fr.caller.panicking
			fr.caller.panicking = nil
			if v, ok := p.val.(Iface); ok {
				return v
			}
			return Iface{T: types.Typ[types.String], V: p.desc}
		}
		return Iface{}
	case "print", "println":
		return nil
	case "clear":
		switch x := args[0].(type) {
		case *Map:
			if x != nil {
				x.Entries = nil
			}
			return nil
		}
	case "ssa:wrapnilchk":
		if isNilRef(args[0]) {
			ex.goPanicf(fr, "value method called using nil pointer")
		}
		return args[0]
	}
	panic(unsupported(fmt.Sprintf("builtin %s(%T)", b.Name(), args[0])))
}
