package exec

import (
	"path/filepath"

	"gosym/term"
)

// flock(2) model for github.com/gofrs/flock: one lock table entry per path;
// an exclusive lock excludes every other Flock object, a shared lock excludes
// exclusive ones. Ownership is per Flock object (open file description).
type flockState struct {
	excl   *flockObj
	shared map[*flockObj]bool
}

type flockObj struct {
	path   string
	l, r   bool
	opened bool
}

const flockPkg = "github.com/gofrs/flock."

func (ex *Exec) flockTable(path string) *flockState {
	t, ok := ex.st.flocks[path]
	if !ok {
		t = &flockState{shared: map[*flockObj]bool{}}
		ex.st.flocks[path] = t
	}
	return t
}

// releaseAllFlocks models process death (every open file description closed).
func (ex *Exec) releaseAllFlocks() {
	ex.st.flocks = map[string]*flockState{}
}

func init() {
	reg(flockPkg+"New", func(ex *Exec, fr *Frame, a []Value) Value {
		return &Native{Kind: "flock", Data: &flockObj{path: filepath.Clean(strOf(a[0]))}}
	})
	try := func(exclusive bool) stubFunc {
		return func(ex *Exec, fr *Frame, a []Value) Value {
			f := a[0].(*Native).Data.(*flockObj)
			if exclusive && f.l || !exclusive && f.r {
				return Tuple{term.True, Iface{}}
			}
			if !f.opened {
				// the lock file is created on first use (O_CREATE|O_RDONLY)
				r := ex.fsOpenFile(f.path, oCREATE).(Tuple)
				if e := r[1].(Iface); e.T != nil {
					return Tuple{term.False, e}
				}
				r[0].(*Native).Data.(*FileH).Closed = true
				f.opened = true
			}
			t := ex.flockTable(f.path)
			if exclusive {
				others := false
				for o := range t.shared {
					if o != f {
						others = true
					}
				}
				if t.excl != nil && t.excl != f || others {
					return Tuple{term.False, Iface{}}
				}
				delete(t.shared, f) // conversion
				t.excl = f
				f.l = true
			} else {
				if t.excl != nil && t.excl != f {
					return Tuple{term.False, Iface{}}
				}
				if t.excl == f {
					t.excl = nil // conversion to shared
				}
				t.shared[f] = true
				f.r = true
			}
			return Tuple{term.True, Iface{}}
		}
	}
	reg("(*"+flockPkg+"Flock).TryLock", try(true))
	reg("(*"+flockPkg+"Flock).TryRLock", try(false))
	reg("(*"+flockPkg+"Flock).Unlock", func(ex *Exec, fr *Frame, a []Value) Value {
		f := a[0].(*Native).Data.(*flockObj)
		if !f.l && !f.r {
			return Iface{}
		}
		t := ex.flockTable(f.path)
		if t.excl == f {
			t.excl = nil
		}
		delete(t.shared, f)
		f.l, f.r, f.opened = false, false, false
		return Iface{}
	})
	reg("(*"+flockPkg+"Flock).Locked", func(ex *Exec, fr *Frame, a []Value) Value {
		return mkBool(a[0].(*Native).Data.(*flockObj).l)
	})
}
