package exec

import (
	"fmt"
	"path/filepath"

	"gosym/term"
)

// flock(2) model for github.com/gofrs/flock: one lock table entry per path;
// an exclusive lock excludes every other Flock object, a shared lock excludes
// exclusive ones. Ownership is per Flock object (open file description).
type flockState struct {
	excl   *flockObj
	shared map[*flockObj]bool
}

type flockObj struct {
	path   string
	l, r   bool
	opened bool
	inode  *Inode // the lock file this object has open (locks belong to the inode, not the name)
}

const flockPkg = "github.com/gofrs/flock."

func (ex *Exec) flockTable(f *flockObj) *flockState {
	key := f.path
	if f.inode != nil {
		// flock(2) locks the open file: a removed and re-created lock file is another file
		key = fmt.Sprintf("%s#%d", f.path, f.inode.ID)
	}
	t, ok := ex.st.flocks[key]
	if !ok {
		t = &flockState{shared: map[*flockObj]bool{}}
		ex.st.flocks[key] = t
	}
	return t
}

// releaseAllFlocks models process death (every open file description closed).
func (ex *Exec) releaseAllFlocks() {
	ex.st.flocks = map[string]*flockState{}
}

func init() {
	reg(flockPkg+"New", func(ex *Exec, fr *Frame, a []Value) Value {
		return &Native{Kind: "flock", Data: &flockObj{path: filepath.Clean(strOf(a[0]))}}
	})
	try := func(exclusive bool) stubFunc {
		return func(ex *Exec, fr *Frame, a []Value) Value {
			f := a[0].(*Native).Data.(*flockObj)
			if exclusive && f.l || !exclusive && f.r {
				return Tuple{term.True, Iface{}}
			}
			if !f.opened {
				// the lock file is created on first use (O_CREATE|O_RDONLY)
				r := ex.fsOpenFile(f.path, oCREATE).(Tuple)
				if e := r[1].(Iface); e.T != nil {
					return Tuple{term.False, e}
				}
				r[0].(*Native).Data.(*FileH).Closed = true
				f.inode = r[0].(*Native).Data.(*FileH).Inode
				f.opened = true
			}
			t := ex.flockTable(f)
			if exclusive {
				others := false
				for o := range t.shared {
					if o != f {
						others = true
					}
				}
				if t.excl != nil && t.excl != f || others {
					return Tuple{term.False, Iface{}}
				}
				delete(t.shared, f) // conversion
				t.excl = f
				f.l = true
			} else {
				if t.excl != nil && t.excl != f {
					return Tuple{term.False, Iface{}}
				}
				if t.excl == f {
					t.excl = nil // conversion to shared
				}
				t.shared[f] = true
				f.r = true
			}
			return Tuple{term.True, Iface{}}
		}
	}
	reg("(*"+flockPkg+"Flock).TryLock", try(true))
	reg("(*"+flockPkg+"Flock).TryRLock", try(false))
	reg("(*"+flockPkg+"Flock).Unlock", func(ex *Exec, fr *Frame, a []Value) Value {
		f := a[0].(*Native).Data.(*flockObj)
		if !f.l && !f.r {
			return Iface{}
		}
		t := ex.flockTable(f)
		if t.excl == f {
			t.excl = nil
		}
		delete(t.shared, f)
		f.l, f.r, f.opened, f.inode = false, false, false, nil
		return Iface{}
	})
	reg("(*"+flockPkg+"Flock).Path", func(ex *Exec, fr *Frame, a []Value) Value {
		return a[0].(*Native).Data.(*flockObj).path
	})
	reg("(*"+flockPkg+"Flock).Locked", func(ex *Exec, fr *Frame, a []Value) Value {
		return mkBool(a[0].(*Native).Data.(*flockObj).l)
	})
}
