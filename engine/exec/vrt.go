package exec

import (
	"fmt"
	"path/filepath"
	"strconv"
	"strings"

	"gosym/term"
)

const vrtPkg = ModulePrefix + "/internal/zzverif/vrt."

func init() {
	v := func(name string, f stubFunc) { reg(vrtPkg+name, f) }
	input := func(w int) stubFunc {
		return func(ex *Exec, fr *Frame, a []Value) Value {
			return ex.NewInput(strOf(a[0]), w)
		}
	}
	v("Register", func(ex *Exec, fr *Frame, a []Value) Value { return nil })
	v("Int64", input(64))
	v("Int", input(64))
	v("Uint64", input(64))
	v("Int32", input(32))
	v("Byte", input(8))
	v("Bool", func(ex *Exec, fr *Frame, a []Value) Value {
		b := ex.NewInput(strOf(a[0]), 1)
		return term.Eq(b, term.Const(1, 1))
	})
	v("IntRange", func(ex *Exec, fr *Frame, a []Value) Value {
		x := ex.NewInput(strOf(a[0]), 64)
		ex.Assume(term.And(term.Sle(a[1].(*term.T), x), term.Sle(x, a[2].(*term.T))))
		return x
	})
	v("Choose", func(ex *Exec, fr *Frame, a []Value) Value {
		x := ex.NewInput(strOf(a[0]), 64)
		ex.Assume(term.And(term.Sle(mkInt(0), x), term.Slt(x, a[1].(*term.T))))
		if f, ok := ex.Cfg.Bounds["fix."+strOf(a[0])]; ok {
			// this worker explores one value of the shape variable only
			ex.Assume(term.Eq(x, mkInt(int64(f))))
		}
		return mkInt(ex.ConcInt(x, "shape "+strOf(a[0])))
	})
	v("Bytes", func(ex *Exec, fr *Frame, a []Value) Value {
		n := ex.sizeArg(fr, a[1], "vrt.Bytes")
		out := make([]Value, n)
		for i := range out {
			out[i] = ex.NewInput(strOf(a[0]), 8)
		}
		return Slice{A: out}
	})
	v("Time", func(ex *Exec, fr *Frame, a []Value) Value {
		return timeOfUs(ex.NewInput(strOf(a[0]), 64))
	})
	v("Bound", func(ex *Exec, fr *Frame, a []Value) Value {
		if b, ok := ex.Cfg.Bounds[strOf(a[0])]; ok {
			return mkInt(int64(b))
		}
		return a[1]
	})
	v("Assume", func(ex *Exec, fr *Frame, a []Value) Value {
		ex.Assume(a[0].(*term.T))
		return nil
	})
	v("Assert", func(ex *Exec, fr *Frame, a []Value) Value {
		ex.Assert(a[0].(*term.T), strOf(a[1]), "assert", ex.posOf(fr))
		return nil
	})
	v("Reach", func(ex *Exec, fr *Frame, a []Value) Value {
		ex.Reach(strOf(a[0]))
		return nil
	})
	v("Observe", func(ex *Exec, fr *Frame, a []Value) Value {
		ex.st.obs = append(ex.st.obs, obsRec{name: strOf(a[0]), val: a[1].(*term.T)})
		return nil
	})
	v("ObserveBool", func(ex *Exec, fr *Frame, a []Value) Value {
		ex.st.obs = append(ex.st.obs, obsRec{name: strOf(a[0]), val: a[1].(*term.T)})
		return nil
	})
	v("Known", func(ex *Exec, fr *Frame, a []Value) Value {
		id := strOf(a[0])
		if ex.Cfg.Known[id] != "known" {
			return term.False
		}
		if ex.Branch(a[1].(*term.T)) {
			ex.st.knownIDs = append(ex.st.knownIDs, id)
			return term.True
		}
		return term.False
	})
	v("And", func(ex *Exec, fr *Frame, a []Value) Value {
		var ts []*term.T
		for _, x := range a[0].(Slice).A {
			ts = append(ts, x.(*term.T))
		}
		return term.And(ts...)
	})
	v("Or", func(ex *Exec, fr *Frame, a []Value) Value {
		var ts []*term.T
		for _, x := range a[0].(Slice).A {
			ts = append(ts, x.(*term.T))
		}
		return term.Or(ts...)
	})
	v("Not", func(ex *Exec, fr *Frame, a []Value) Value { return term.Not(a[0].(*term.T)) })
	v("Implies", func(ex *Exec, fr *Frame, a []Value) Value {
		return term.Implies(a[0].(*term.T), a[1].(*term.T))
	})
	v("Iff", func(ex *Exec, fr *Frame, a []Value) Value { return term.Eq(a[0].(*term.T), a[1].(*term.T)) })
	v("IteInt64", func(ex *Exec, fr *Frame, a []Value) Value {
		return term.Ite(a[0].(*term.T), a[1].(*term.T), a[2].(*term.T))
	})
	v("IteByte", func(ex *Exec, fr *Frame, a []Value) Value {
		return term.Ite(a[0].(*term.T), a[1].(*term.T), a[2].(*term.T))
	})
	v("SelectByte", func(ex *Exec, fr *Frame, a []Value) Value {
		xs := a[0].(Slice).A
		i := a[1].(*term.T)
		if i.IsConst() {
			return xs[i.Int()]
		}
		ex.Assert(term.And(term.Sle(mkInt(0), i), term.Slt(i, mkInt(int64(len(xs))))), "SelectByte index in range", "assert", ex.posOf(fr))
		r := xs[len(xs)-1].(*term.T)
		for k := len(xs) - 2; k >= 0; k-- {
			r = term.Ite(term.Eq(i, mkInt(int64(k))), xs[k].(*term.T), r)
		}
		return r
	})
	v("BytesEqual", func(ex *Exec, fr *Frame, a []Value) Value {
		return bytesEqual(bytesOf(a[0]), bytesOf(a[1]))
	})
	v("SelectInt64", func(ex *Exec, fr *Frame, a []Value) Value {
		xs := a[0].(Slice).A
		i := a[1].(*term.T)
		if i.IsConst() {
			return xs[i.Int()]
		}
		ex.Assert(term.And(term.Sle(mkInt(0), i), term.Slt(i, mkInt(int64(len(xs))))), "SelectInt64 index in range", "assert", ex.posOf(fr))
		r := xs[len(xs)-1].(*term.T)
		for k := len(xs) - 2; k >= 0; k-- {
			r = term.Ite(term.Eq(i, mkInt(int64(k))), xs[k].(*term.T), r)
		}
		return r
	})
	v("ErrIs", func(ex *Exec, fr *Frame, a []Value) Value { return mkBool(errorsIs(ex, a[0], a[1])) })
	v("CRC32C", func(ex *Exec, fr *Frame, a []Value) Value { return crcOf(ex, 0x82f63b78, bytesOf(a[0])) })
	v("FNV64a", func(ex *Exec, fr *Frame, a []Value) Value { return fnvOf(ex, bytesOf(a[0])) })
	v("NoCRCCollision", func(ex *Exec, fr *Frame, a []Value) Value {
		x, y := bytesOf(a[0]), bytesOf(a[1])
		eq := bytesEqual(x, y)
		ex.Assume(term.Or(eq, term.Not(term.Eq(crcOf(ex, 0x82f63b78, x), crcOf(ex, 0x82f63b78, y)))))
		ex.Assumes["CRC32C: the compared byte strings do not collide"] = true
		return nil
	})

	// ------------------------------------------------------------ files
	v("Dir", func(ex *Exec, fr *Frame, a []Value) Value {
		d := "/" + strOf(a[0])
		ex.fs().Dirs[d] = true
		return d
	})
	v("WriteFile", func(ex *Exec, fr *Frame, a []Value) Value {
		fs := ex.fs()
		e := ex.fsLookup(a[0])
		if e == nil {
			fs.nInodes++
			e = &fsEntry{Path: a[0], Inode: &Inode{ID: fs.nInodes}}
			fs.Files = append(fs.Files, e)
		}
		e.Inode.Data = append([]*term.T{}, bytesOf(a[1])...)
		e.Inode.Size = nil
		e.Inode.Synced = len(e.Inode.Data)
		e.Inode.Mtime = ex.mtimeNow()
		return nil
	})
	v("ReadFile", func(ex *Exec, fr *Frame, a []Value) Value {
		e := ex.fsLookup(a[0])
		if e == nil {
			return Tuple{Slice{}, term.False}
		}
		n := ex.concSize(e.Inode, "vrt.ReadFile")
		return Tuple{sliceOfBytes(e.Inode.Data[:n]), term.True}
	})
	v("RemoveFile", func(ex *Exec, fr *Frame, a []Value) Value {
		fs := ex.fs()
		for i, e := range fs.Files {
			if ex.Branch(pathEqual(e.Path, a[0])) {
				fs.Files = append(append([]*fsEntry{}, fs.Files[:i]...), fs.Files[i+1:]...)
				break
			}
		}
		return nil
	})
	v("Exists", func(ex *Exec, fr *Frame, a []Value) Value {
		return mkBool(ex.fsLookup(a[0]) != nil)
	})
	v("List", func(ex *Exec, fr *Frame, a []Value) Value {
		r := ex.fsReadDir(strOf(a[0])).(Tuple)
		var out []Value
		for _, e := range r[0].(Slice).A {
			out = append(out, e.(Iface).V.(*Native).Data.(*infoV).name)
		}
		return Slice{A: out}
	})
	v("AllocMark", func(ex *Exec, fr *Frame, a []Value) Value { return term.Const(0, 64) })
	v("AllocOK", func(ex *Exec, fr *Frame, a []Value) Value { return term.True })
	v("Go", func(ex *Exec, fr *Frame, a []Value) Value {
		ex.goStmt(fr, a[1], nil)
		return nil
	})
	v("Atomic", func(ex *Exec, fr *Frame, a []Value) Value {
		s := ex.sched()
		s.noYield++
		defer func() { s.noYield-- }()
		ex.callValue(fr, a[0], nil, false)
		return nil
	})
	v("WaitQuiescent", func(ex *Exec, fr *Frame, a []Value) Value {
		ex.waitQuiescent()
		return nil
	})
	v("Snapshot", func(ex *Exec, fr *Frame, a []Value) Value {
		dir := filepath.Clean(strOf(a[0]))
		sn := &snapV{}
		for _, e := range ex.fs().Files {
			n, ok := baseName(e.Path, dir)
			if !ok {
				continue
			}
			if s, isStr := n.(string); isStr && s == ".lock" {
				continue
			}
			sn.names = append(sn.names, n)
			sn.data = append(sn.data, append([]*term.T{}, e.Inode.Data...))
			sn.size = append(sn.size, e.Inode.sizeTerm())
		}
		c := new(Value)
		*c = &Native{Kind: "snap", Data: sn}
		return c
	})
	v("SameSnapshot", func(ex *Exec, fr *Frame, a []Value) Value {
		x := (*(a[0].(*Value))).(*Native).Data.(*snapV)
		y := (*(a[1].(*Value))).(*Native).Data.(*snapV)
		if len(x.names) != len(y.names) {
			return term.False
		}
		var cs []*term.T
		used := make([]bool, len(y.names))
		for i := range x.names {
			// match by name (symbolic names: the equality becomes part of the condition)
			var alts []*term.T
			for j := range y.names {
				if used[j] {
					continue
				}
				eq := equalValues(x.names[i], y.names[j])
				if eq.IsFalse() {
					continue
				}
				c := []*term.T{eq, term.Eq(x.size[i], y.size[j])}
				n := min(len(x.data[i]), len(y.data[j]))
				for k := 0; k < n; k++ {
					if x.data[i][k] != y.data[j][k] {
						c = append(c, term.Or(term.Sle(x.size[i], mkInt(int64(k))), term.Eq(x.data[i][k], y.data[j][k])))
					}
				}
				if len(x.data[i]) != len(y.data[j]) {
					c = append(c, term.Sle(x.size[i], mkInt(int64(n))))
				}
				alts = append(alts, term.And(c...))
				if eq.IsTrue() {
					used[j] = true
					break
				}
			}
			cs = append(cs, term.Or(alts...))
		}
		return term.And(cs...)
	})
	v("SegOffsets", func(ex *Exec, fr *Frame, a []Value) Value {
		r := ex.fsReadDir(strOf(a[0])).(Tuple)
		var out []Value
		for _, e := range r[0].(Slice).A {
			name := e.(Iface).V.(*Native).Data.(*infoV).name
			switch n := name.(type) {
			case string:
				if len(n) == 24 && strings.HasSuffix(n, ".log") {
					v, err := strconv.ParseInt(n[:20], 10, 64)
					if err == nil {
						out = append(out, mkInt(v))
					}
				}
			case *Rope:
				if len(n.parts) == 2 && n.parts[0].t != nil && n.parts[1].s == ".log" {
					out = append(out, n.parts[0].t)
				}
			}
		}
		return Slice{A: out}
	})
	v("Truncate", func(ex *Exec, fr *Frame, a []Value) Value {
		e := ex.fsLookup(a[0])
		if e == nil {
			panic(unsupported("vrt.Truncate of a missing file"))
		}
		n := a[1].(*term.T)
		if n.IsConst() {
			ex.concSize(e.Inode, "truncate")
			e.Inode.Data = e.Inode.Data[:n.Int()]
			return nil
		}
		// symbolic length: 0 <= n <= current length (which must be concrete)
		cur := ex.concSize(e.Inode, "truncate")
		ex.Assume(term.And(term.Sle(mkInt(0), n), term.Sle(n, mkInt(int64(cur)))))
		e.Inode.Size = n
		return nil
	})
	v("SegName", func(ex *Exec, fr *Frame, a []Value) Value {
		dir := filepath.Clean(strOf(a[0]))
		off := a[1].(*term.T)
		ext := strOf(a[2])
		if !off.IsConst() {
			if ex.Branch(term.Slt(off, mkInt(0))) {
				panic(unsupported("negative symbolic offset in a file name"))
			}
		}
		return ropeConcat(ropeConcat(dir+"/", ropeDec(off)), ext)
	})
	v("FSEvents", func(ex *Exec, fr *Frame, a []Value) Value {
		return mkInt(int64(len(ex.fs().Events)))
	})
}

func (ex *Exec) crashCheck() {}

type snapV struct {
	names []Value
	data  [][]*term.T
	size  []*term.T
}

var _ = fmt.Sprint
