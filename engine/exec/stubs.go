package exec

import (
	"encoding/base32"
	"fmt"
	"go/types"
	"hash/crc32"
	"hash/fnv"
	"path/filepath"
	"strconv"
	"strings"
	"time"

	"golang.org/x/tools/go/ssa"

	"gosym/term"
)

type stubFunc = func(ex *Exec, fr *Frame, args []Value) Value

var stubs = map[string]stubFunc{}

func reg(name string, f stubFunc) { stubs[name] = f }

// ---------------------------------------------------------------- errors

type ErrV struct {
	Msg   string
	Wraps []Value // Iface values
}

var errT = natType("error")

func mkErr(e *ErrV) Iface { return Iface{T: errT, V: e} }

var sentinels = map[string]Iface{}

func sentinel(name string) Iface {
	if e, ok := sentinels[name]; ok {
		return e
	}
	e := mkErr(&ErrV{Msg: name})
	sentinels[name] = e
	return e
}

func newErr(msg string, wraps ...Value) Iface {
	return mkErr(&ErrV{Msg: msg, Wraps: wraps})
}

func externalGlobal(ex *Exec, g *ssa.Global) (Value, bool) {
	switch g.String() {
	case "io.EOF":
		return sentinel("EOF"), true
	case "io.ErrUnexpectedEOF":
		return sentinel("unexpected EOF"), true
	case "io.ErrShortWrite":
		return sentinel("short write"), true
	case "io.ErrShortBuffer":
		return sentinel("short buffer"), true
	case "io.ErrNoProgress":
		return sentinel("no progress"), true
	case "io.errInvalidWrite":
		return sentinel("invalid write result"), true
	case "io.ErrClosedPipe":
		return sentinel("closed pipe"), true
	case "os.ErrNotExist", "io/fs.ErrNotExist", "internal/oserror.ErrNotExist":
		return sentinel("file does not exist"), true
	case "os.ErrExist", "io/fs.ErrExist", "internal/oserror.ErrExist":
		return sentinel("file already exists"), true
	case "os.ErrPermission", "io/fs.ErrPermission":
		return sentinel("permission denied"), true
	case "os.ErrClosed", "io/fs.ErrClosed":
		return sentinel("file already closed"), true
	case "os.ErrInvalid", "io/fs.ErrInvalid":
		return sentinel("invalid argument"), true
	case "context.Canceled":
		return sentinel("context canceled"), true
	case "context.DeadlineExceeded":
		return sentinel("context deadline exceeded"), true
	case "time.UTC", "time.Local":
		c := new(Value)
		*c = Struct{}
		return c, true
	case "crypto/rand.Reader":
		return Iface{T: natType("randReader"), V: &Native{Kind: "randReader"}}, true
	}
	return nil, false
}

func hasMethod(t types.Type, name string) bool {
	if _, ok := t.(*nativeType); ok {
		return false
	}
	ms := types.NewMethodSet(t)
	for i := 0; i < ms.Len(); i++ {
		if ms.At(i).Obj().Name() == name {
			return true
		}
	}
	return false
}

func errorsIs(ex *Exec, err, target Value) bool {
	e := err.(Iface)
	t := target.(Iface)
	if e.T == nil {
		return t.T == nil
	}
	if equalValues(e, t).IsTrue() {
		return true
	}
	if ev, ok := e.V.(*ErrV); ok {
		for _, w := range ev.Wraps {
			if errorsIs(ex, w, target) {
				return true
			}
		}
		return false
	}
	// an error type implemented in interpreted code: follow Unwrap() error if present
	if !hasMethod(e.T, "Unwrap") {
		return false
	}
	if m := ex.Prog.LookupMethod(e.T, nil, "Unwrap"); m != nil && m.Signature.Results().Len() == 1 {
		if _, isSlice := m.Signature.Results().At(0).Type().Underlying().(*types.Slice); !isSlice {
			inner := ex.callFunction(m, []Value{e.V}, nil)
			if in, ok := inner.(Iface); ok && in.T != nil {
				return errorsIs(ex, in, target)
			}
		}
	}
	return false
}

func init() {
	reg("errors.New", func(ex *Exec, fr *Frame, a []Value) Value {
		return newErr(strOf(a[0]))
	})
	reg("fmt.Errorf", func(ex *Exec, fr *Frame, a []Value) Value {
		// the message text is not computed; %w operands are recorded
		format := strOf(a[0])
		var wraps []Value
		for _, v := range a[1].(Slice).A {
			iv := v.(Iface)
			if iv.T == nil {
				continue
			}
			if _, ok := iv.V.(*ErrV); ok {
				wraps = append(wraps, iv)
				continue
			}
			if hasMethod(iv.T, "Error") {
				wraps = append(wraps, iv)
			}
		}
		if !strings.Contains(format, "%w") {
			wraps = nil
		}
		return newErr(format, wraps...)
	})
	reg("errors.Is", func(ex *Exec, fr *Frame, a []Value) Value {
		return mkBool(errorsIs(ex, a[0], a[1]))
	})
	reg("errors.Unwrap", func(ex *Exec, fr *Frame, a []Value) Value {
		e := a[0].(Iface)
		if ev, ok := e.V.(*ErrV); ok && len(ev.Wraps) == 1 {
			return ev.Wraps[0]
		}
		return Iface{}
	})
	reg("native:error.Error", func(ex *Exec, fr *Frame, a []Value) Value {
		return a[0].(*ErrV).Msg
	})
	reg("os.IsNotExist", func(ex *Exec, fr *Frame, a []Value) Value {
		return mkBool(errorsIs(ex, a[0], sentinel("file does not exist")))
	})
	reg("os.IsExist", func(ex *Exec, fr *Frame, a []Value) Value {
		return mkBool(errorsIs(ex, a[0], sentinel("file already exists")))
	})

	// ------------------------------------------------------------ fmt / strings
	reg("fmt.Sprintf", func(ex *Exec, fr *Frame, a []Value) Value {
		return sprintf(ex, strOf(a[0]), a[1].(Slice).A)
	})
	reg("fmt.Sprint", func(ex *Exec, fr *Frame, a []Value) Value { return "<sprint>" })
	reg("fmt.Appendf", func(ex *Exec, fr *Frame, a []Value) Value {
		s := sprintf(ex, strOf(a[1]), a[2].(Slice).A)
		str, ok := s.(string)
		if !ok {
			panic(unsupported("Appendf with symbolic result"))
		}
		dst := a[0].(Slice)
		out := append([]Value{}, dst.A...)
		for i := 0; i < len(str); i++ {
			out = append(out, mkByte(str[i]))
		}
		return Slice{A: out}
	})
	reg("strings.Repeat", func(ex *Exec, fr *Frame, a []Value) Value {
		n, _ := constInt(a[1])
		return strings.Repeat(strOf(a[0]), int(n))
	})
	reg("strings.CutSuffix", func(ex *Exec, fr *Frame, a []Value) Value {
		suf := strOf(a[1])
		switch s := a[0].(type) {
		case string:
			b, ok := strings.CutSuffix(s, suf)
			return Tuple{b, mkBool(ok)}
		case *Rope:
			last := s.parts[len(s.parts)-1]
			if last.t != nil || len(last.s) < len(suf) {
				// the suffix would have to overlap a number: only possible if suf is digits
				return Tuple{s, term.False}
			}
			if !strings.HasSuffix(last.s, suf) {
				return Tuple{s, term.False}
			}
			return Tuple{s.Substr(0, s.Len()-len(suf)), term.True}
		}
		panic(unsupported("CutSuffix"))
	})
	reg("strings.HasSuffix", func(ex *Exec, fr *Frame, a []Value) Value {
		suf := strOf(a[1])
		switch s := a[0].(type) {
		case string:
			return mkBool(strings.HasSuffix(s, suf))
		case *Rope:
			last := s.parts[len(s.parts)-1]
			if last.t != nil || len(last.s) < len(suf) {
				return term.False
			}
			return mkBool(strings.HasSuffix(last.s, suf))
		}
		panic(unsupported("HasSuffix"))
	})
	reg("strconv.ParseInt", func(ex *Exec, fr *Frame, a []Value) Value {
		base, _ := constInt(a[1])
		bits, _ := constInt(a[2])
		switch s := a[0].(type) {
		case string:
			v, err := strconv.ParseInt(s, int(base), int(bits))
			if err != nil {
				return Tuple{mkInt(v), newErr("strconv.ParseInt: " + err.Error())}
			}
			return Tuple{mkInt(v), Iface{}}
		case *Rope:
			if len(s.parts) == 1 && s.parts[0].t != nil && base == 10 && bits == 64 {
				return Tuple{s.parts[0].t, Iface{}}
			}
		}
		panic(unsupported("ParseInt of " + fmt.Sprint(a[0])))
	})
	reg("path/filepath.Join", func(ex *Exec, fr *Frame, a []Value) Value {
		elems := a[0].(Slice).A
		allConcrete := true
		for _, e := range elems {
			if _, ok := e.(string); !ok {
				allConcrete = false
			}
		}
		if allConcrete {
			ss := make([]string, len(elems))
			for i, e := range elems {
				ss[i] = e.(string)
			}
			return filepath.Join(ss...)
		}
		// concrete clean directory prefix + symbolic base name
		var out Value = ""
		for i, e := range elems {
			if i > 0 {
				out = ropeConcat(out, "/")
			}
			if s, ok := e.(string); ok {
				s = filepath.Clean(s)
				out = ropeConcat(out, s)
			} else {
				out = ropeConcat(out, e)
			}
		}
		return out
	})
	reg("path/filepath.Base", func(ex *Exec, fr *Frame, a []Value) Value {
		switch s := a[0].(type) {
		case string:
			return filepath.Base(s)
		case *Rope:
			if b, ok := baseName(s, dirOfPath(s)); ok {
				return b
			}
		}
		panic(unsupported("filepath.Base of symbolic path"))
	})
	reg("path/filepath.Clean", func(ex *Exec, fr *Frame, a []Value) Value {
		if s, ok := a[0].(string); ok {
			return filepath.Clean(s)
		}
		return a[0]
	})
	reg("path/filepath.Ext", func(ex *Exec, fr *Frame, a []Value) Value {
		switch s := a[0].(type) {
		case string:
			return filepath.Ext(s)
		case *Rope:
			if last := s.parts[len(s.parts)-1]; last.t == nil {
				return filepath.Ext("x" + last.s)
			}
			return ""
		}
		panic(unsupported("filepath.Ext"))
	})
	reg("path/filepath.Dir", func(ex *Exec, fr *Frame, a []Value) Value {
		switch s := a[0].(type) {
		case string:
			return filepath.Dir(s)
		case *Rope:
			if first := s.parts[0]; first.t == nil {
				if i := strings.LastIndex(first.s, "/"); i >= 0 {
					ok := true
					for _, p := range s.parts[1:] {
						if p.t == nil && strings.Contains(p.s, "/") {
							ok = false
						}
					}
					if ok {
						return filepath.Dir(first.s[:i+1] + "x")
					}
				}
			}
		}
		panic(unsupported("filepath.Dir of symbolic path"))
	})
	reg("path/filepath.Rel", func(ex *Exec, fr *Frame, a []Value) Value {
		base := strOf(a[0])
		switch s := a[1].(type) {
		case string:
			r, err := filepath.Rel(base, s)
			if err != nil {
				return Tuple{"", newErr("Rel: " + err.Error())}
			}
			return Tuple{r, Iface{}}
		case *Rope:
			pre := filepath.Clean(base) + "/"
			if first := s.parts[0]; first.t == nil && strings.HasPrefix(first.s, pre) {
				return Tuple{s.Substr(len(pre), s.Len()), Iface{}}
			}
		}
		panic(unsupported("filepath.Rel of symbolic path"))
	})
	reg("encoding/base32.NewEncoding", func(ex *Exec, fr *Frame, a []Value) Value {
		c := new(Value)
		*c = &Native{Kind: "base32", Data: base32.NewEncoding(strOf(a[0]))}
		return c
	})
	reg("(encoding/base32.Encoding).WithPadding", func(ex *Exec, fr *Frame, a []Value) Value {
		c := new(Value)
		*c = a[0]
		return c
	})
	reg("(*encoding/base32.Encoding).WithPadding", func(ex *Exec, fr *Frame, a []Value) Value {
		return a[0]
	})
	reg("(*encoding/base32.Encoding).EncodeToString", func(ex *Exec, fr *Frame, a []Value) Value {
		// random temp-name suffix: distinct per call (collisions are outside the claim)
		ex.st.fresh++
		return fmt.Sprintf("r%04d", ex.st.fresh)
	})
	reg("io.ReadFull", func(ex *Exec, fr *Frame, a []Value) Value {
		r := a[0].(Iface)
		if nt, ok := r.T.(*nativeType); ok && nt.name == "randReader" {
			buf := a[1].(Slice)
			for i := range buf.A {
				buf.A[i] = mkByte(byte(i + 1))
			}
			return Tuple{mkInt(int64(len(buf.A))), Iface{}}
		}
		if h, ok := r.V.(*Native); ok && h.Kind == "file" {
			return fileReadFull(ex, fr, h, a[1].(Slice))
		}
		panic(unsupported("io.ReadFull on " + fmt.Sprint(r.T)))
	})

	// ------------------------------------------------------------ encoding/binary
	for _, be := range []bool{true, false} {
		pre := "(encoding/binary.bigEndian)."
		if !be {
			pre = "(encoding/binary.littleEndian)."
		}
		be := be
		for _, n := range []int{2, 4, 8} {
			n := n
			suffix := strconv.Itoa(n * 8)
			reg(pre+"Uint"+suffix, func(ex *Exec, fr *Frame, a []Value) Value {
				b := a[1].(Slice)
				if len(b.A) < n {
					ex.goPanicf(fr, "index out of range [%d] with length %d", n-1, len(b.A))
				}
				var r *term.T
				for i := 0; i < n; i++ {
					idx := i
					if !be {
						idx = n - 1 - i
					}
					bt := b.A[idx].(*term.T)
					if r == nil {
						r = bt
					} else {
						r = term.Concat(r, bt)
					}
				}
				return r
			})
			put := func(ex *Exec, fr *Frame, dst []Value, v *term.T) {
				if len(dst) < n {
					ex.goPanicf(fr, "index out of range [%d] with length %d", n-1, len(dst))
				}
				for i := 0; i < n; i++ {
					idx := i
					if !be {
						idx = n - 1 - i
					}
					hi := (n-i)*8 - 1
					dst[idx] = term.Extract(v, hi, hi-7)
				}
			}
			reg(pre+"PutUint"+suffix, func(ex *Exec, fr *Frame, a []Value) Value {
				put(ex, fr, a[1].(Slice).A, a[2].(*term.T))
				return nil
			})
			reg(pre+"AppendUint"+suffix, func(ex *Exec, fr *Frame, a []Value) Value {
				dst := a[1].(Slice)
				out := make([]Value, len(dst.A)+n)
				copy(out, dst.A)
				put(ex, fr, out[len(dst.A):], a[2].(*term.T))
				return Slice{A: out}
			})
		}
	}
	reg("bytes.Equal", func(ex *Exec, fr *Frame, a []Value) Value {
		return bytesEqual(bytesOf(a[0]), bytesOf(a[1]))
	})

	// ------------------------------------------------------------ hashes
	reg("hash/crc32.MakeTable", func(ex *Exec, fr *Frame, a []Value) Value {
		poly, ok := constInt(a[0])
		if !ok {
			panic(unsupported("crc32.MakeTable with symbolic polynomial"))
		}
		return &Native{Kind: "crctable", Data: uint32(poly)}
	})
	reg("hash/crc32.Checksum", func(ex *Exec, fr *Frame, a []Value) Value {
		tab := a[1].(*Native)
		return crcOf(ex, tab.Data.(uint32), bytesOf(a[0]))
	})
	reg("hash/fnv.New64a", func(ex *Exec, fr *Frame, a []Value) Value {
		return Iface{T: natType("fnv64a"), V: &Native{Kind: "fnv64a", Data: &[]*term.T{}}}
	})
	reg("native:fnv64a.Write", func(ex *Exec, fr *Frame, a []Value) Value {
		h := a[0].(*Native).Data.(*[]*term.T)
		bs := bytesOf(a[1])
		*h = append(*h, bs...)
		return Tuple{mkInt(int64(len(bs))), Iface{}}
	})
	reg("native:fnv64a.Sum64", func(ex *Exec, fr *Frame, a []Value) Value {
		h := a[0].(*Native).Data.(*[]*term.T)
		return fnvOf(ex, *h)
	})

	// ------------------------------------------------------------ time
	reg("time.Now", func(ex *Exec, fr *Frame, a []Value) Value {
		return timeOfUs(ex.clockNow())
	})
	reg("time.UnixMicro", func(ex *Exec, fr *Frame, a []Value) Value {
		return timeOfUs(a[0].(*term.T))
	})
	reg("(time.Time).UnixMicro", func(ex *Exec, fr *Frame, a []Value) Value {
		return usOfTime(a[0])
	})
	reg("(time.Time).UTC", func(ex *Exec, fr *Frame, a []Value) Value { return a[0] })
	reg("(time.Time).Local", func(ex *Exec, fr *Frame, a []Value) Value { return a[0] })
	reg("(time.Time).IsZero", func(ex *Exec, fr *Frame, a []Value) Value {
		s := a[0].(Struct)
		return term.And(term.Eq(s[1].(*term.T), mkInt(0)), term.Eq(s[0].(*term.T), term.Const(0, 64)))
	})
	reg("(time.Time).After", func(ex *Exec, fr *Frame, a []Value) Value { return timeLess(a[1], a[0]) })
	reg("(time.Time).Before", func(ex *Exec, fr *Frame, a []Value) Value { return timeLess(a[0], a[1]) })
	reg("(time.Time).Equal", func(ex *Exec, fr *Frame, a []Value) Value {
		x, y := a[0].(Struct), a[1].(Struct)
		return term.And(term.Eq(x[1].(*term.T), y[1].(*term.T)), term.Eq(x[0].(*term.T), y[0].(*term.T)))
	})
	reg("(time.Time).Add", func(ex *Exec, fr *Frame, a []Value) Value {
		s := a[0].(Struct)
		d := a[1].(*term.T)
		// duration in ns; whole microseconds only (sub-microsecond part must be zero)
		us := term.SDiv(d, mkInt(1000))
		rem := term.SRem(d, mkInt(1000))
		if !rem.IsConst() || rem.Val != 0 {
			ex.Assume(term.Eq(rem, mkInt(0)))
			ex.Assumes["time.Add: durations are whole microseconds"] = true
		}
		return Struct{s[0], term.Add(s[1].(*term.T), us), s[2]}
	})
	reg("(time.Time).Sub", func(ex *Exec, fr *Frame, a []Value) Value {
		x, y := a[0].(Struct), a[1].(Struct)
		// (x-y) in ns as a fresh value constrained by sign only: avoids a symbolic multiply
		d := term.Sub(x[1].(*term.T), y[1].(*term.T))
		return term.Mul(d, mkInt(1000))
	})
	reg("time.Since", func(ex *Exec, fr *Frame, a []Value) Value {
		now := ex.clockNow()
		t := usOfTime(a[0])
		return term.Mul(term.Sub(now, t), mkInt(1000))
	})
	reg("time.Date", func(ex *Exec, fr *Frame, a []Value) Value {
		var v [7]int
		for i := 0; i < 7; i++ {
			c, ok := constInt(a[i])
			if !ok {
				panic(unsupported("time.Date with symbolic field"))
			}
			v[i] = int(c)
		}
		t := time.Date(v[0], time.Month(v[1]), v[2], v[3], v[4], v[5], v[6], time.UTC)
		return timeOfUs(mkInt(t.UnixMicro()))
	})
	reg("(time.Duration).String", func(ex *Exec, fr *Frame, a []Value) Value { return "<duration>" })
	reg("(time.Time).String", func(ex *Exec, fr *Frame, a []Value) Value { return "<time>" })

	reg("maps.Clone", func(ex *Exec, fr *Frame, a []Value) Value {
		m := a[0].(*Map)
		if m == nil {
			return (*Map)(nil)
		}
		c := &Map{KT: m.KT, VT: m.VT}
		for _, e := range m.Entries {
			c.Entries = append(c.Entries, &mapEntry{K: copyVal(e.K), V: copyVal(e.V)})
		}
		return c
	})
}

const timeBias = int64(62135596800000000) // microseconds from year 1 to 1970

func timeOfUs(us *term.T) Value {
	return Struct{term.Const(0, 64), term.Add(us, mkInt(timeBias)), (*Value)(nil)}
}

func usOfTime(v Value) *term.T {
	s := v.(Struct)
	return term.Sub(s[1].(*term.T), mkInt(timeBias))
}

func timeLess(x, y Value) *term.T {
	xs, ys := x.(Struct), y.(Struct)
	xu, yu := usOfTime(x), usOfTime(y)
	return term.Or(term.Slt(xu, yu), term.And(term.Eq(xu, yu), term.Ult(xs[0].(*term.T), ys[0].(*term.T))))
}

func (ex *Exec) clockNow() *term.T {
	n := ex.Fresh("now", 64)
	if ex.st.clock != nil {
		ex.Assume(term.And(term.Sle(ex.st.clock, n), term.Sle(n, mkInt(1<<61))))
	} else {
		// the clock starts after 2000-01-01 and stays far from overflow
		ex.Assume(term.And(term.Sle(mkInt(946684800000000), n), term.Sle(n, mkInt(1<<61))))
	}
	ex.st.clock = n
	return n
}

func strOf(v Value) string {
	switch v := v.(type) {
	case string:
		return v
	case *Rope:
		return v.String()
	}
	panic(unsupported(fmt.Sprintf("string expected, got %T", v)))
}

func bytesEqual(x, y []*term.T) *term.T {
	if len(x) != len(y) {
		return term.False
	}
	var cs []*term.T
	for i := range x {
		cs = append(cs, term.Eq(x[i], y[i]))
	}
	return term.And(cs...)
}

// crcOf: concrete input => the real CRC; otherwise an uninterpreted function
// of the bytes (one function symbol per length and polynomial).
func crcOf(ex *Exec, poly uint32, bs []*term.T) *term.T {
	conc := make([]byte, len(bs))
	all := true
	for i, b := range bs {
		if !b.IsConst() {
			all = false
			break
		}
		conc[i] = byte(b.Val)
	}
	if all {
		return term.Const(uint64(crc32.Checksum(conc, crc32.MakeTable(poly))), 32)
	}
	t := term.App(fmt.Sprintf("crc32_%08x_%d", poly, len(bs)), 32, bs...)
	ex.noteUF(t)
	return t
}

func fnvOf(ex *Exec, bs []*term.T) *term.T {
	conc := make([]byte, len(bs))
	all := true
	for i, b := range bs {
		if !b.IsConst() {
			all = false
			break
		}
		conc[i] = byte(b.Val)
	}
	if all {
		h := fnv.New64a()
		h.Write(conc)
		return term.Const(h.Sum64(), 64)
	}
	return term.App(fmt.Sprintf("fnv64a_%d", len(bs)), 64, bs...)
}

func (ex *Exec) noteUF(t *term.T) {
	for _, o := range ex.st.crcApps {
		if o == t {
			return
		}
	}
	ex.st.crcApps = append(ex.st.crcApps, t)
}

// sprintf supports the verbs klevdb uses; %020d of a symbolic integer gives a Rope.
func sprintf(ex *Exec, format string, args []Value) Value {
	var out Value = ""
	ai := 0
	for i := 0; i < len(format); i++ {
		c := format[i]
		if c != '%' {
			out = ropeConcat(out, string(c))
			continue
		}
		j := i + 1
		for j < len(format) && strings.ContainsRune("0123456789+-# .", rune(format[j])) {
			j++
		}
		if j >= len(format) {
			break
		}
		verb := format[j]
		flags := format[i+1 : j]
		i = j
		if verb == '%' {
			out = ropeConcat(out, "%")
			continue
		}
		if ai >= len(args) {
			out = ropeConcat(out, "%!"+string(verb)+"(MISSING)")
			continue
		}
		arg := args[ai].(Iface)
		ai++
		switch v := arg.V.(type) {
		case string:
			out = ropeConcat(out, fmt.Sprintf("%"+flags+string(verb), v))
		case *Rope:
			if verb != 's' && verb != 'v' || flags != "" {
				panic(unsupported("formatting a symbolic string with %" + flags + string(verb)))
			}
			out = ropeConcat(out, v)
		case *term.T:
			if v.IsConst() {
				if v.W == 0 {
					out = ropeConcat(out, fmt.Sprintf("%"+flags+string(verb), v.IsTrue()))
				} else if isSigned(arg.T) {
					out = ropeConcat(out, fmt.Sprintf("%"+flags+string(verb), v.Int()))
				} else {
					out = ropeConcat(out, fmt.Sprintf("%"+flags+string(verb), v.Uint()))
				}
			} else if verb == 'd' && flags == "020" && v.W == 64 {
				// zero-padded 20 digit rendering: exact for non-negative values
				if ex.Branch(term.Slt(v, mkInt(0))) {
					panic(unsupported("negative symbolic offset in a file name"))
				}
				out = ropeConcat(out, ropeDec(v))
			} else {
				out = ropeConcat(out, "<sym>")
				ex.StubsRun["sprintf-symbolic-%"+flags+string(verb)]++
			}
		default:
			out = ropeConcat(out, "<"+fmt.Sprint(arg.T)+">")
		}
	}
	return out
}
