package exec

import (
	"fmt"
	"go/constant"
	"go/token"
	"go/types"
	"strings"

	"golang.org/x/tools/go/ssa"

	"gosym/term"
)

type Frame struct {
	fn        *ssa.Function
	env       map[ssa.Value]Value
	block     *ssa.BasicBlock
	prev      *ssa.BasicBlock
	defers    []*deferred
	result    Value
	panicking *goPanic
	caller    *Frame
	loops     map[*ssa.BasicBlock]int
	curPos    token.Pos
	isDeferred bool
}

type deferred struct {
	fn   Value
	args []Value
	call *ssa.CallCommon
	pos  token.Pos
}

const ModulePrefix = "github.com/klev-dev/klevdb"

func inModule(pkg *ssa.Package) bool {
	return pkg != nil && strings.HasPrefix(pkg.Pkg.Path(), ModulePrefix)
}

func (ex *Exec) initGlobals() {
	// run the package initialisers of the harness package (transitively: every
	// klevdb package; initialisers of other packages are skipped)
	if init := ex.Harness.Pkg.Func("init"); init != nil {
		ex.callFunction(init, nil, nil)
	}
}

func (ex *Exec) globalCell(g *ssa.Global) *Value {
	if c, ok := ex.st.globals[g]; ok {
		return c
	}
	c := new(Value)
	elem := g.Type().(*types.Pointer).Elem()
	if v, ok := externalGlobal(ex, g); ok {
		*c = v
	} else {
		*c = zero(elem)
		if !inModule(g.Pkg) && !strings.HasSuffix(g.Name(), "init$guard") {
			ex.StubsRun["uninit-global:"+g.String()]++
		}
	}
	ex.st.globals[g] = c
	return c
}

func (ex *Exec) constValue(c *ssa.Const) Value {
	t := c.Type()
	if c.Value == nil {
		return zero(t)
	}
	switch u := t.Underlying().(type) {
	case *types.Basic:
		switch {
		case u.Info()&types.IsBoolean != 0:
			return mkBool(constant.BoolVal(c.Value))
		case u.Info()&types.IsInteger != 0:
			w := width(t)
			if u.Info()&types.IsUnsigned != 0 {
				v, _ := constant.Uint64Val(constant.ToInt(c.Value))
				return term.Const(v, w)
			}
			v, _ := constant.Int64Val(constant.ToInt(c.Value))
			return term.Const(uint64(v), w)
		case u.Info()&types.IsString != 0:
			return constant.StringVal(c.Value)
		case u.Info()&types.IsFloat != 0:
			return floatVal{}
		}
	case *types.Interface:
		// typed constant converted to interface is done by MakeInterface; here only nil
		return zero(t)
	}
	panic(unsupported("constant of type " + t.String()))
}

func (ex *Exec) get(fr *Frame, v ssa.Value) Value {
	switch v := v.(type) {
	case *ssa.Const:
		return ex.constValue(v)
	case *ssa.Global:
		return ex.globalCell(v)
	case *ssa.Function:
		return v
	case *ssa.Builtin:
		return v
	}
	if r, ok := fr.env[v]; ok {
		return r
	}
	panic(fmt.Sprintf("get: no value for %T %s in %s", v, v.Name(), fr.fn))
}

func (ex *Exec) posOf(fr *Frame) token.Pos {
	for f := fr; f != nil; f = f.caller {
		if f.curPos.IsValid() {
			return f.curPos
		}
	}
	return token.NoPos
}

func (ex *Exec) goPanicf(fr *Frame, format string, args ...any) {
	panic(&goPanic{desc: fmt.Sprintf(format, args...), pos: ex.posOf(fr), val: fmt.Sprintf(format, args...)})
}

// callFunction calls fn (a stub, or an SSA function) with args.
func (ex *Exec) callFunction(fn *ssa.Function, args []Value, caller *Frame) Value {
	name := fn.String()
	if st, ok := stubs[name]; ok {
		ex.StubsRun[name]++
		if ex.st.sched != nil && fsVisible(name) {
			// file-system calls are visible operations of the concurrency harnesses
			ex.yield("fs")
		}
		return st(ex, caller, args)
	}
	if o := fn.Origin(); o != nil {
		if st, ok := stubs[o.String()]; ok {
			ex.StubsRun[o.String()]++
			return st(ex, caller, args)
		}
	}
	if fn.Blocks == nil {
		panic(unsupported("external function " + name))
	}
	if fn.Name() == "init" && fn.Pkg != nil && !inModule(fn.Pkg) && fn.Signature.Recv() == nil {
		return nil // initialisers of non-klevdb packages are not run
	}
	if !inModule(fn.Pkg) && fn.Pkg != nil && !allowedExternal(fn) {
		panic(unsupported("unmodelled library function " + name))
	}
	return ex.callSSA(fn, args, nil, caller)
}

func (ex *Exec) callSSA(fn *ssa.Function, args []Value, freevars []Value, caller *Frame) Value {
	st := ex.st
	st.depth++
	if st.depth > 400 {
		panic(unsupported("call depth exceeded in " + fn.String()))
	}
	defer func() { st.depth-- }()
	fr := &Frame{fn: fn, env: make(map[ssa.Value]Value, 16), caller: caller}
	if len(args) != len(fn.Params) {
		panic(fmt.Sprintf("call %s: %d args for %d params", fn, len(args), len(fn.Params)))
	}
	for i, p := range fn.Params {
		fr.env[p] = args[i]
	}
	for i, fv := range fn.FreeVars {
		fr.env[fv] = freevars[i]
	}
	fr.block = fn.Blocks[0]
	start := ex.st.instrs
	for fr.block != nil {
		ex.runBlocks(fr)
	}
	ex.FuncsRun[fn] += ex.st.instrs - start
	return fr.result
}

func (ex *Exec) runBlocks(fr *Frame) {
	defer func() {
		if fr.block == nil {
			return // normal return
		}
		r := recover()
		gp, ok := r.(*goPanic)
		if !ok {
			panic(r)
		}
		fr.panicking = gp
		ex.runDefers(fr)
		if fr.panicking != nil {
			fr.block = nil
			panic(fr.panicking)
		}
		// recovered
		fr.block = fr.fn.Recover
		fr.prev = nil
		if fr.block == nil {
			// no named results: return zero values
			res := fr.fn.Signature.Results()
			switch res.Len() {
			case 0:
				fr.result = nil
			case 1:
				fr.result = zero(res.At(0).Type())
			default:
				fr.result = zero(res)
			}
		}
	}()
	for {
		b := fr.block
		if fr.loops == nil {
			fr.loops = map[*ssa.BasicBlock]int{}
		}
		fr.loops[b]++
		if fr.loops[b] > ex.Cfg.LoopBudget {
			ex.unwindHit(fr)
		}
		next := ex.runBlock(fr, b)
		if next == nil {
			fr.block = nil
			return
		}
		fr.prev = b
		fr.block = next
	}
}

func (ex *Exec) unwindHit(fr *Frame) {
	ex.C.UnwindHits++
	ex.reportViolation("unwinding bound reached in "+fr.fn.String(), "unwind", ex.posOf(fr), nil)
	ex.endPath("unwind")
}

func (ex *Exec) runDefers(fr *Frame) {
	for len(fr.defers) > 0 {
		d := fr.defers[len(fr.defers)-1]
		fr.defers = fr.defers[:len(fr.defers)-1]
		ex.invokeDeferred(fr, d)
	}
}

func (ex *Exec) invokeDeferred(fr *Frame, d *deferred) {
	marker := &Frame{fn: fr.fn, caller: fr, isDeferred: true, panicking: nil}
	_ = marker
	ex.callValue(fr, d.fn, d.args, true)
}

// callValue calls a function value.
func (ex *Exec) callValue(fr *Frame, fv Value, args []Value, deferredCall bool) Value {
	switch f := fv.(type) {
	case *ssa.Function:
		if f == nil {
			ex.goPanicf(fr, "call of nil function")
		}
		if deferredCall && f.Blocks != nil {
			if _, isStub := stubs[f.String()]; !isStub {
				return ex.callSSADeferred(f, args, nil, fr)
			}
		}
		return ex.callFunction(f, args, fr)
	case *Closure:
		if f == nil {
			ex.goPanicf(fr, "call of nil function")
		}
		if st, ok := stubs[f.Fn.String()]; ok {
			return st(ex, fr, append(append([]Value{}, f.Env...), args...))
		}
		if deferredCall {
			return ex.callSSADeferred(f.Fn, args, f.Env, fr)
		}
		return ex.callSSA(f.Fn, args, f.Env, fr)
	case *ssa.Builtin:
		return ex.callBuiltin(fr, f, args, nil)
	case *stubFn:
		ex.StubsRun[f.name]++
		return f.fn(ex, fr, args)
	}
	panic(unsupported(fmt.Sprintf("call of %T", fv)))
}

func (ex *Exec) callSSADeferred(fn *ssa.Function, args []Value, env []Value, caller *Frame) Value {
	// same as callSSA, but the callee may recover the caller's panic
	st := ex.st
	st.depth++
	defer func() { st.depth-- }()
	fr := &Frame{fn: fn, env: make(map[ssa.Value]Value, 16), caller: caller, isDeferred: true}
	for i, p := range fn.Params {
		fr.env[p] = args[i]
	}
	for i, fv := range fn.FreeVars {
		fr.env[fv] = env[i]
	}
	fr.block = fn.Blocks[0]
	for fr.block != nil {
		ex.runBlocks(fr)
	}
	return fr.result
}

func (ex *Exec) runBlock(fr *Frame, b *ssa.BasicBlock) *ssa.BasicBlock {
	for _, instr := range b.Instrs {
		ex.st.instrs++
		if ex.st.instrs > ex.Cfg.MaxInstrs {
			ex.unwindHit(fr)
		}
		if p := instr.Pos(); p.IsValid() {
			fr.curPos = p
		}
		switch in := instr.(type) {
		case *ssa.DebugRef:
		case *ssa.Phi:
			for i, pred := range b.Preds {
				if pred == fr.prev {
					fr.env[in] = ex.get(fr, in.Edges[i])
					break
				}
			}
		case *ssa.Alloc:
			c := new(Value)
			*c = zero(in.Type().(*types.Pointer).Elem())
			fr.env[in] = c
		case *ssa.UnOp:
			fr.env[in] = ex.unop(fr, in)
		case *ssa.BinOp:
			fr.env[in] = ex.binop(fr, in.Op, in.X.Type(), ex.get(fr, in.X), ex.get(fr, in.Y), in.Y.Type())
		case *ssa.Store:
			addr := ex.get(fr, in.Addr)
			p, ok := addr.(*Value)
			if !ok || p == nil {
				ex.goPanicf(fr, "nil pointer dereference (store)")
			}
			ex.noteAccess(fr, p, true)
			store(p, ex.get(fr, in.Val))
		case *ssa.FieldAddr:
			p, ok := ex.get(fr, in.X).(*Value)
			if !ok || p == nil {
				ex.goPanicf(fr, "nil pointer dereference (field %d)", in.Field)
			}
			s := (*p).(Struct)
			fr.env[in] = &s[in.Field]
		case *ssa.Field:
			s := ex.get(fr, in.X).(Struct)
			fr.env[in] = copyVal(s[in.Field])
		case *ssa.IndexAddr:
			fr.env[in] = ex.indexAddr(fr, in)
		case *ssa.Index:
			fr.env[in] = ex.index(fr, in)
		case *ssa.Call:
			fr.env[in] = ex.doCall(fr, &in.Call)
		case *ssa.Extract:
			fr.env[in] = ex.get(fr, in.Tuple).(Tuple)[in.Index]
		case *ssa.MakeInterface:
			fr.env[in] = Iface{T: in.X.Type(), V: copyVal(ex.get(fr, in.X))}
		case *ssa.ChangeInterface:
			fr.env[in] = ex.get(fr, in.X)
		case *ssa.ChangeType:
			fr.env[in] = ex.get(fr, in.X)
		case *ssa.Convert:
			fr.env[in] = ex.convert(fr, in.X.Type(), in.Type(), ex.get(fr, in.X))
		case *ssa.MultiConvert:
			fr.env[in] = ex.convert(fr, in.X.Type(), in.Type(), ex.get(fr, in.X))
		case *ssa.TypeAssert:
			fr.env[in] = ex.typeAssert(fr, in)
		case *ssa.MakeClosure:
			var env []Value
			for _, bnd := range in.Bindings {
				env = append(env, ex.get(fr, bnd))
			}
			fr.env[in] = &Closure{Fn: in.Fn.(*ssa.Function), Env: env}
		case *ssa.MakeSlice:
			fr.env[in] = ex.makeSlice(fr, in)
		case *ssa.MakeMap:
			mt := in.Type().Underlying().(*types.Map)
			fr.env[in] = &Map{KT: mt.Key(), VT: mt.Elem()}
		case *ssa.MakeChan:
			n := ex.sizeArg(fr, ex.get(fr, in.Size), "make chan")
			fr.env[in] = newChan(int(n), in.Type().Underlying().(*types.Chan).Elem())
		case *ssa.Slice:
			fr.env[in] = ex.sliceOp(fr, in)
		case *ssa.SliceToArrayPointer:
			s := ex.get(fr, in.X).(Slice)
			n := int(in.Type().(*types.Pointer).Elem().Underlying().(*types.Array).Len())
			if len(s.A) < n {
				ex.goPanicf(fr, "slice to array pointer: length too small")
			}
			c := new(Value)
			*c = Array(s.A[:n:n])
			fr.env[in] = c
		case *ssa.Lookup:
			fr.env[in] = ex.lookup(fr, in)
		case *ssa.MapUpdate:
			m := ex.get(fr, in.Map).(*Map)
			if m == nil {
				ex.goPanicf(fr, "assignment to entry in nil map")
			}
			ex.mapUpdate(m, ex.get(fr, in.Key), copyVal(ex.get(fr, in.Value)))
		case *ssa.Range:
			fr.env[in] = ex.rangeIter(fr, in)
		case *ssa.Next:
			fr.env[in] = ex.get(fr, in.Iter).(*iter).next()
		case *ssa.Defer:
			fv, args := ex.prepareCall(fr, &in.Call)
			fr.defers = append(fr.defers, &deferred{fn: fv, args: args, call: &in.Call, pos: in.Pos()})
		case *ssa.RunDefers:
			ex.runDefers(fr)
		case *ssa.Go:
			fv, args := ex.prepareCall(fr, &in.Call)
			ex.goStmt(fr, fv, args)
		case *ssa.Send:
			ex.chanSend(fr, ex.get(fr, in.Chan).(*Chan), ex.get(fr, in.X))
		case *ssa.Select:
			fr.env[in] = ex.selectOp(fr, in)
		case *ssa.Panic:
			v := ex.get(fr, in.X)
			panic(&goPanic{val: v, desc: "explicit panic: " + describe(v), pos: in.Pos()})
		case *ssa.Return:
			switch len(in.Results) {
			case 0:
				fr.result = nil
			case 1:
				fr.result = copyVal(ex.get(fr, in.Results[0]))
			default:
				t := make(Tuple, len(in.Results))
				for i, r := range in.Results {
					t[i] = copyVal(ex.get(fr, r))
				}
				fr.result = t
			}
			return nil
		case *ssa.Jump:
			return b.Succs[0]
		case *ssa.If:
			c := ex.get(fr, in.Cond).(*term.T)
			if ex.Branch(c) {
				return b.Succs[0]
			}
			return b.Succs[1]
		default:
			panic(unsupported(fmt.Sprintf("instruction %T", instr)))
		}
	}
	panic("block without terminator")
}

func describe(v Value) string {
	switch v := v.(type) {
	case Iface:
		if s, ok := v.V.(string); ok {
			return s
		}
		if e, ok := v.V.(*ErrV); ok {
			return e.Msg
		}
		return fmt.Sprintf("%v", v.T)
	case string:
		return v
	}
	return fmt.Sprintf("%T", v)
}

// sizeArg turns a length/size operand into a concrete int (case split if symbolic).
func (ex *Exec) sizeArg(fr *Frame, v Value, what string) int64 {
	t := v.(*term.T)
	if t.IsConst() {
		return t.Int()
	}
	return ex.ConcInt(t, what+" at "+ex.Prog.Fset.Position(ex.posOf(fr)).String())
}

// makeSlice: a symbolic length is case-split over the values up to the
// allocation cap; all larger values are represented by one oversized slice
// (symbolic length, materialised prefix).
func (ex *Exec) makeSlice(fr *Frame, in *ssa.MakeSlice) Value {
	et := in.Type().Underlying().(*types.Slice).Elem()
	lt := ex.get(fr, in.Len).(*term.T)
	ct := ex.get(fr, in.Cap).(*term.T)
	mk := func(n, c int64) Slice {
		a := make([]Value, n, c)
		z := zero(et)
		for i := range a {
			a[i] = copyVal(z)
		}
		return Slice{A: a}
	}
	if lt.W < 64 {
		lt = term.SExt(lt, 64)
	}
	if ct.W < 64 {
		ct = term.SExt(ct, 64)
	}
	if maxA, ok := ex.Cfg.Bounds["max_alloc"]; ok && !lt.IsConst() {
		ex.Assert(term.Sle(lt, mkInt(int64(maxAlloc(maxA)))), "allocation size stays within the documented bound", "assert", in.Pos())
	}
	if !lt.IsConst() && lt == ct {
		capN := int64(ex.Cfg.Bounds["alloc_cap"])
		if capN == 0 {
			capN = 1024
		}
		if ex.Branch(term.Slt(lt, mkInt(0))) {
			ex.goPanicf(fr, "makeslice: len out of range")
		}
		if ex.Branch(term.Slt(mkInt(capN), lt)) {
			s := mk(capN, capN)
			s.SymLen = lt
			return s
		}
		n := ex.ConcInt(lt, "make len")
		return mk(n, n)
	}
	n := ex.sizeArg(fr, lt, "make len")
	c := ex.sizeArg(fr, ct, "make cap")
	if n < 0 || c < n {
		ex.goPanicf(fr, "makeslice: len out of range")
	}
	if c > 1<<20 {
		panic(unsupported(fmt.Sprintf("make of %d elements", c)))
	}
	return mk(n, c)
}

func maxAlloc(v int) int { return v }

func (ex *Exec) noteBigAlloc(fr *Frame, n int64) {
	ex.st.ghost["bigalloc"] = mkInt(n)
}

func (ex *Exec) unop(fr *Frame, in *ssa.UnOp) Value {
	x := ex.get(fr, in.X)
	switch in.Op {
	case token.MUL: // load
		p, ok := x.(*Value)
		if !ok || p == nil {
			ex.goPanicf(fr, "nil pointer dereference (load)")
		}
		ex.noteAccess(fr, p, false)
		return load(p)
	case token.NOT:
		return term.Not(x.(*term.T))
	case token.SUB:
		if _, ok := x.(floatVal); ok {
			return x
		}
		return term.Neg(x.(*term.T))
	case token.XOR:
		return term.BNot(x.(*term.T))
	case token.ARROW:
		v, ok := ex.chanRecv(fr, x.(*Chan))
		if in.CommaOk {
			return Tuple{v, mkBool(ok)}
		}
		return v
	}
	panic(unsupported("unop " + in.Op.String()))
}

func (ex *Exec) indexAddr(fr *Frame, in *ssa.IndexAddr) Value {
	x := ex.get(fr, in.X)
	var arr []Value
	switch x := x.(type) {
	case Slice:
		x.mustConcrete("index")
		arr = x.A
	case *Value:
		if x == nil {
			ex.goPanicf(fr, "nil pointer dereference (index)")
		}
		arr = []Value((*x).(Array))
	default:
		panic(unsupported(fmt.Sprintf("IndexAddr on %T", x)))
	}
	i := ex.indexArg(fr, ex.get(fr, in.Index), in.Index.Type(), len(arr))
	return &arr[i]
}

// indexArg checks bounds (as an obligation when symbolic) and concretises.
func (ex *Exec) indexArg(fr *Frame, v Value, t types.Type, n int) int {
	it := v.(*term.T)
	if it.W < 64 {
		if isSigned(t) {
			it = term.SExt(it, 64)
		} else {
			it = term.ZExt(it, 64)
		}
	}
	if it.IsConst() {
		i := it.Int()
		if i < 0 || i >= int64(n) {
			ex.goPanicf(fr, "index out of range [%d] with length %d", i, n)
		}
		return int(i)
	}
	inb := term.And(term.Sle(mkInt(0), it), term.Slt(it, mkInt(int64(n))))
	if !ex.Branch(inb) {
		ex.goPanicf(fr, "index out of range [symbolic] with length %d", n)
	}
	return int(ex.ConcInt(it, "index"))
}

func (ex *Exec) index(fr *Frame, in *ssa.Index) Value {
	x := ex.get(fr, in.X)
	switch x := x.(type) {
	case Array:
		i := ex.indexArg(fr, ex.get(fr, in.Index), in.Index.Type(), len(x))
		return copyVal(x[i])
	case string:
		i := ex.indexArg(fr, ex.get(fr, in.Index), in.Index.Type(), len(x))
		return mkByte(x[i])
	}
	panic(unsupported(fmt.Sprintf("Index on %T", x)))
}

func (ex *Exec) sliceOp(fr *Frame, in *ssa.Slice) Value {
	x := ex.get(fr, in.X)
	arg := func(v ssa.Value, def int64) int64 {
		if v == nil {
			return def
		}
		t := ex.get(fr, v).(*term.T)
		if t.W < 64 {
			if isSigned(v.Type()) {
				t = term.SExt(t, 64)
			} else {
				t = term.ZExt(t, 64)
			}
		}
		if t.IsConst() {
			return t.Int()
		}
		return ex.ConcInt(t, "slice bound")
	}
	switch x := x.(type) {
	case Slice:
		if x.SymLen != nil {
			lo := arg(in.Low, 0)
			if lo < 0 || lo > int64(len(x.A)) {
				panic(unsupported("slicing an oversized slice outside its materialised prefix"))
			}
			if in.High == nil {
				return Slice{A: x.A[lo:], SymLen: term.Sub(x.SymLen, mkInt(lo))}
			}
			hi := arg(in.High, 0)
			if hi < lo || hi > int64(len(x.A)) {
				panic(unsupported("slicing an oversized slice outside its materialised prefix"))
			}
			return Slice{A: x.A[lo:hi:hi]}
		}
		lo := arg(in.Low, 0)
		hi := arg(in.High, int64(len(x.A)))
		mx := arg(in.Max, int64(cap(x.A)))
		if lo < 0 || hi < lo || mx < hi || mx > int64(cap(x.A)) {
			ex.goPanicf(fr, "slice bounds out of range [%d:%d:%d] with capacity %d", lo, hi, mx, cap(x.A))
		}
		if x.A == nil {
			return Slice{}
		}
		return Slice{A: x.A[lo:hi:mx]}
	case *Value:
		if x == nil {
			ex.goPanicf(fr, "nil pointer dereference (slice)")
		}
		arr := []Value((*x).(Array))
		lo := arg(in.Low, 0)
		hi := arg(in.High, int64(len(arr)))
		mx := arg(in.Max, int64(len(arr)))
		if lo < 0 || hi < lo || mx < hi || mx > int64(len(arr)) {
			ex.goPanicf(fr, "slice bounds out of range [%d:%d:%d] with array length %d", lo, hi, mx, len(arr))
		}
		return Slice{A: arr[lo:hi:mx]}
	case string:
		lo := arg(in.Low, 0)
		hi := arg(in.High, int64(len(x)))
		if lo < 0 || hi < lo || hi > int64(len(x)) {
			ex.goPanicf(fr, "string slice bounds out of range [%d:%d] with length %d", lo, hi, len(x))
		}
		return x[lo:hi]
	case *Rope:
		lo := arg(in.Low, 0)
		hi := arg(in.High, int64(x.Len()))
		return x.Substr(int(lo), int(hi))
	}
	panic(unsupported(fmt.Sprintf("Slice on %T", x)))
}

func (ex *Exec) typeAssert(fr *Frame, in *ssa.TypeAssert) Value {
	x := ex.get(fr, in.X).(Iface)
	ok := false
	if x.T != nil {
		if it, isIface := in.AssertedType.Underlying().(*types.Interface); isIface {
			ok = ex.implements(x.T, it)
		} else {
			ok = types.Identical(x.T, in.AssertedType)
		}
	}
	var res Value
	if _, isIface := in.AssertedType.Underlying().(*types.Interface); isIface {
		if ok {
			res = x
		} else {
			res = Iface{}
		}
	} else {
		if ok {
			res = copyVal(x.V)
		} else {
			res = zero(in.AssertedType)
		}
	}
	if in.CommaOk {
		return Tuple{res, mkBool(ok)}
	}
	if !ok {
		ex.goPanicf(fr, "interface conversion: %v is not %v", x.T, in.AssertedType)
	}
	return res
}

func (ex *Exec) implements(t types.Type, it *types.Interface) bool {
	if nt, ok := t.(*nativeType); ok {
		for i := 0; i < it.NumMethods(); i++ {
			if _, ok := stubs["native:"+nt.name+"."+it.Method(i).Name()]; !ok {
				return false
			}
		}
		return true
	}
	return types.Implements(t, it)
}

// prepareCall evaluates the callee and arguments of a call.
func (ex *Exec) prepareCall(fr *Frame, call *ssa.CallCommon) (Value, []Value) {
	var args []Value
	var fv Value
	if call.IsInvoke() {
		recv := ex.get(fr, call.Value).(Iface)
		if recv.T == nil {
			ex.goPanicf(fr, "nil interface method call %s", call.Method.Name())
		}
		if nt, ok := recv.T.(*nativeType); ok {
			name := "native:" + nt.name + "." + call.Method.Name()
			st, ok := stubs[name]
			if !ok {
				panic(unsupported("method " + name))
			}
			fv = &stubFn{name: name, fn: st}
		} else {
			m := ex.Prog.LookupMethod(recv.T, call.Method.Pkg(), call.Method.Name())
			if m == nil {
				panic(unsupported(fmt.Sprintf("method %s not found on %v", call.Method.Name(), recv.T)))
			}
			fv = m
		}
		args = append(args, recv.V)
	} else {
		fv = ex.get(fr, call.Value)
	}
	for _, a := range call.Args {
		args = append(args, copyVal(ex.get(fr, a)))
	}
	return fv, args
}

type stubFn struct {
	name string
	fn   func(*Exec, *Frame, []Value) Value
}

func (ex *Exec) doCall(fr *Frame, call *ssa.CallCommon) Value {
	fv, args := ex.prepareCall(fr, call)
	switch f := fv.(type) {
	case *stubFn:
		ex.StubsRun[f.name]++
		return f.fn(ex, fr, args)
	case *ssa.Builtin:
		return ex.callBuiltin(fr, f, args, call)
	}
	return ex.callValue(fr, fv, args, false)
}

func fsVisible(name string) bool {
	return strings.HasPrefix(name, "os.") || strings.HasPrefix(name, "(*os.File).") || strings.HasPrefix(name, "golang.org/x/exp/mmap.") ||
		strings.HasPrefix(name, "(*golang.org/x/exp/mmap.ReaderAt).") || name == "io.Copy"
}

func allowedExternal(fn *ssa.Function) bool {
	if fn.Pkg == nil {
		return true // synthetic wrappers, instantiations without package
	}
	switch fn.Pkg.Pkg.Path() {
	case "encoding/binary", "bytes", "strings", "slices", "sort", "io", "errors", "context", "maps", "cmp", "unicode/utf8", "math/bits", "internal/bytealg":
		return true
	}
	return false
}
