package exec

import (
	"fmt"
	"go/types"

	"golang.org/x/tools/go/ssa"

	"gosym/term"
)

// Value is a symbolic run-time value:
//
//	*term.T          bool and integer scalars (Bool / BitVec)
//	Struct, Array    aggregates (copied by value on load/store)
//	*Value           pointers (nil pointer = (*Value)(nil))
//	Slice            slices (A == nil is the nil slice)
//	string, *Rope    strings
//	*Map, *Chan      maps, channels
//	Iface            interface values (T == nil is the nil interface)
//	*ssa.Function, *ssa.Builtin, *Closure   function values
//	Tuple            multiple results
//	*Native          handles of modelled library objects
type Value = any

type Struct []Value
type Array []Value
type Tuple []Value

type Slice struct {
	A []Value
	// SymLen != nil: an oversized slice whose length is the symbolic term SymLen
	// (larger than len(A)); only the prefix A is materialised. Supported
	// operations: len, re-slicing inside the prefix or to the end, being the
	// buffer of a (necessarily short) ReadAt. Anything else is unsupported.
	SymLen *term.T
}

func (s Slice) mustConcrete(what string) {
	if s.SymLen != nil {
		panic(unsupported("oversized (symbolic length) slice used by " + what))
	}
}

type Iface struct {
	T types.Type
	V Value
}

type Closure struct {
	Fn  *ssa.Function
	Env []Value
}

// Native is a handle to an object of a modelled library type.
type Native struct {
	Kind string
	Data any
}

// nativeType is the dynamic type of interface values that hold a Native.
type nativeType struct{ name string }

func (n *nativeType) Underlying() types.Type { return n }
func (n *nativeType) String() string         { return "native:" + n.name }

var nativeTypes = map[string]*nativeType{}

func natType(name string) *nativeType {
	if t, ok := nativeTypes[name]; ok {
		return t
	}
	t := &nativeType{name}
	nativeTypes[name] = t
	return t
}

type mapEntry struct {
	K, V Value
}

type Map struct {
	KT, VT  types.Type
	Entries []*mapEntry
}

func width(t types.Type) int {
	switch b := t.Underlying().(type) {
	case *types.Basic:
		switch b.Kind() {
		case types.Bool, types.UntypedBool:
			return 0
		case types.Int8, types.Uint8:
			return 8
		case types.Int16, types.Uint16:
			return 16
		case types.Int32, types.Uint32, types.UntypedRune:
			return 32
		case types.Int, types.Int64, types.Uint, types.Uint64, types.Uintptr, types.UntypedInt:
			return 64
		}
	}
	return -1
}

func isSigned(t types.Type) bool {
	if b, ok := t.Underlying().(*types.Basic); ok {
		return b.Info()&types.IsUnsigned == 0 && b.Info()&types.IsInteger != 0
	}
	return false
}

func isInteger(t types.Type) bool {
	if b, ok := t.Underlying().(*types.Basic); ok {
		return b.Info()&types.IsInteger != 0
	}
	return false
}

func isString(t types.Type) bool {
	if b, ok := t.Underlying().(*types.Basic); ok {
		return b.Info()&types.IsString != 0
	}
	return false
}

// zero returns the zero value of type t.
func zero(t types.Type) Value {
	switch u := t.Underlying().(type) {
	case *types.Basic:
		if u.Kind() == types.UnsafePointer {
			return (*Value)(nil)
		}
		if u.Info()&types.IsString != 0 {
			return ""
		}
		if u.Info()&types.IsFloat != 0 || u.Info()&types.IsComplex != 0 {
			return floatVal{}
		}
		w := width(t)
		if w == 0 {
			return term.False
		}
		if w > 0 {
			return term.Const(0, w)
		}
		if u.Kind() == types.UntypedNil {
			return (*Value)(nil)
		}
		panic(unsupported("zero of basic type " + t.String()))
	case *types.Struct:
		s := make(Struct, u.NumFields())
		for i := range s {
			s[i] = zero(u.Field(i).Type())
		}
		return s
	case *types.Array:
		a := make(Array, int(u.Len()))
		for i := range a {
			a[i] = zero(u.Elem())
		}
		return a
	case *types.Pointer:
		return (*Value)(nil)
	case *types.Slice:
		return Slice{}
	case *types.Map:
		return (*Map)(nil)
	case *types.Chan:
		return (*Chan)(nil)
	case *types.Interface:
		return Iface{}
	case *types.Signature:
		return (*Closure)(nil)
	case *types.Tuple:
		tu := make(Tuple, u.Len())
		for i := range tu {
			tu[i] = zero(u.At(i).Type())
		}
		return tu
	case *nativeType:
		return (*Native)(nil)
	}
	panic(unsupported("zero of type " + t.String()))
}

// floatVal is a placeholder for floating point values (never inspected).
type floatVal struct{}

// copyVal makes a deep copy of aggregates (value semantics).
func copyVal(v Value) Value {
	switch v := v.(type) {
	case Struct:
		c := make(Struct, len(v))
		for i := range v {
			c[i] = copyVal(v[i])
		}
		return c
	case Array:
		c := make(Array, len(v))
		for i := range v {
			c[i] = copyVal(v[i])
		}
		return c
	}
	return v
}

// store writes v into *addr preserving the identity of aggregate cells.
func store(addr *Value, v Value) {
	switch v := v.(type) {
	case Struct:
		lhs, ok := (*addr).(Struct)
		if !ok || len(lhs) != len(v) {
			*addr = copyVal(v)
			return
		}
		for i := range lhs {
			store(&lhs[i], v[i])
		}
	case Array:
		lhs, ok := (*addr).(Array)
		if !ok || len(lhs) != len(v) {
			*addr = copyVal(v)
			return
		}
		for i := range lhs {
			store(&lhs[i], v[i])
		}
	default:
		*addr = v
	}
}

func load(addr *Value) Value { return copyVal(*addr) }

type unsupportedErr struct{ msg string }

func unsupported(msg string) unsupportedErr { return unsupportedErr{msg} }

func (u unsupportedErr) Error() string { return "unsupported: " + u.msg }

// isNilPtrLike reports whether v is a nil pointer / nil native handle.
func isNilRef(v Value) bool {
	switch v := v.(type) {
	case *Value:
		return v == nil
	case *Native:
		return v == nil
	case *Map:
		return v == nil
	case *Chan:
		return v == nil
	case *Closure:
		return v == nil
	case Slice:
		return v.A == nil
	case Iface:
		return v.T == nil
	case nil:
		return true
	}
	return false
}

// equalValues returns the Bool term for x == y.
func equalValues(x, y Value) *term.T {
	switch x := x.(type) {
	case *term.T:
		return term.Eq(x, y.(*term.T))
	case string:
		switch y := y.(type) {
		case string:
			return term.Bool(x == y)
		case *Rope:
			return ropeEq(ropeOf(x), y)
		}
	case *Rope:
		switch y := y.(type) {
		case string:
			return ropeEq(x, ropeOf(y))
		case *Rope:
			return ropeEq(x, y)
		}
	case Struct:
		y := y.(Struct)
		var cs []*term.T
		for i := range x {
			cs = append(cs, equalValues(x[i], y[i]))
		}
		return term.And(cs...)
	case Array:
		y := y.(Array)
		var cs []*term.T
		for i := range x {
			cs = append(cs, equalValues(x[i], y[i]))
		}
		return term.And(cs...)
	case Iface:
		y := y.(Iface)
		if x.T == nil || y.T == nil {
			return term.Bool(x.T == nil && y.T == nil)
		}
		if !types.Identical(x.T, y.T) {
			return term.False
		}
		return equalValues(x.V, y.V)
	case *Value:
		switch y := y.(type) {
		case *Value:
			return term.Bool(x == y)
		default:
			return term.Bool(x == nil && isNilRef(y))
		}
	case *Native:
		switch y := y.(type) {
		case *Native:
			return term.Bool(x == y)
		default:
			return term.Bool(x == nil && isNilRef(y))
		}
	case *Map:
		if y, ok := y.(*Map); ok {
			return term.Bool(x == y)
		}
		return term.Bool(x == nil && isNilRef(y))
	case *Chan:
		if y, ok := y.(*Chan); ok {
			return term.Bool(x == y)
		}
		return term.Bool(x == nil && isNilRef(y))
	case *Closure:
		return term.Bool(isNilRef(x) && isNilRef(y))
	case *ssa.Function:
		return term.Bool(isNilRef(y) == false && x == y)
	case Slice:
		// only comparison with nil is legal
		return term.Bool(x.A == nil && isNilRef(y))
	case *ErrV:
		if y, ok := y.(*ErrV); ok {
			return term.Bool(x == y)
		}
		return term.False
	case floatVal:
		panic(unsupported("float comparison"))
	case nil:
		return term.Bool(isNilRef(y))
	}
	panic(unsupported(fmt.Sprintf("equality of %T and %T", x, y)))
}

func constInt(v Value) (int64, bool) {
	if t, ok := v.(*term.T); ok && t.IsConst() {
		return t.Int(), true
	}
	return 0, false
}

func mkInt(v int64) *term.T  { return term.Const(uint64(v), 64) }
func mkByte(v byte) *term.T  { return term.Const(uint64(v), 8) }
func mkBool(b bool) *term.T  { return term.Bool(b) }
func asTerm(v Value) *term.T { return v.(*term.T) }

// bytesOf returns the byte terms of a []byte / string value.
func bytesOf(v Value) []*term.T {
	switch v := v.(type) {
	case Slice:
		v.mustConcrete("bytesOf")
		out := make([]*term.T, len(v.A))
		for i, b := range v.A {
			out[i] = b.(*term.T)
		}
		return out
	case string:
		out := make([]*term.T, len(v))
		for i := 0; i < len(v); i++ {
			out[i] = mkByte(v[i])
		}
		return out
	}
	panic(unsupported(fmt.Sprintf("bytesOf %T", v)))
}

func sliceOfBytes(bs []*term.T) Slice {
	a := make([]Value, len(bs))
	for i, b := range bs {
		a[i] = b
	}
	return Slice{A: a}
}

func concreteBytes(v Value) ([]byte, bool) {
	bs := bytesOf(v)
	out := make([]byte, len(bs))
	for i, b := range bs {
		if !b.IsConst() {
			return nil, false
		}
		out[i] = byte(b.Val)
	}
	return out, true
}
