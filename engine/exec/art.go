package exec

import (
	"gosym/term"
)

// artTree models plar/go-adaptive-radix-tree as a map from byte strings to
// values (nil == empty key); lookups with symbolic bytes fork per entry.
type artTree struct {
	keys [][]*term.T
	vals []Value
}

const artPkg = "github.com/plar/go-adaptive-radix-tree/v2."

func (ex *Exec) artFind(t *artTree, k []*term.T) int {
	for i, e := range t.keys {
		if len(e) != len(k) {
			continue
		}
		if ex.Branch(bytesEqual(e, k)) {
			return i
		}
	}
	return -1
}

func init() {
	reg(artPkg+"New", func(ex *Exec, fr *Frame, a []Value) Value {
		return Iface{T: natType("art"), V: &Native{Kind: "art", Data: &artTree{}}}
	})
	reg("native:art.Insert", func(ex *Exec, fr *Frame, a []Value) Value {
		t := a[0].(*Native).Data.(*artTree)
		k := bytesOf(a[1])
		if i := ex.artFind(t, k); i >= 0 {
			old := t.vals[i]
			t.vals[i] = a[2]
			return Tuple{old, term.True}
		}
		t.keys = append(t.keys, append([]*term.T{}, k...))
		t.vals = append(t.vals, a[2])
		return Tuple{Iface{}, term.False}
	})
	reg("native:art.Search", func(ex *Exec, fr *Frame, a []Value) Value {
		t := a[0].(*Native).Data.(*artTree)
		if i := ex.artFind(t, bytesOf(a[1])); i >= 0 {
			return Tuple{t.vals[i], term.True}
		}
		return Tuple{Iface{}, term.False}
	})
	reg("native:art.Delete", func(ex *Exec, fr *Frame, a []Value) Value {
		t := a[0].(*Native).Data.(*artTree)
		if i := ex.artFind(t, bytesOf(a[1])); i >= 0 {
			old := t.vals[i]
			t.keys = append(append([][]*term.T{}, t.keys[:i]...), t.keys[i+1:]...)
			t.vals = append(append([]Value{}, t.vals[:i]...), t.vals[i+1:]...)
			return Tuple{old, term.True}
		}
		return Tuple{Iface{}, term.False}
	})
	reg("native:art.Size", func(ex *Exec, fr *Frame, a []Value) Value {
		return mkInt(int64(len(a[0].(*Native).Data.(*artTree).keys)))
	})
}
