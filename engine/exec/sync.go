package exec

import (
	"fmt"
	"go/types"
	"sync"

	"golang.org/x/tools/go/ssa"

	"gosym/term"
)

// ------------------------------------------------------------------ goroutines
//
// Interpreted goroutines run on host goroutines but strictly one at a time: a
// baton is passed at visible operations (lock, unlock, atomic, channel, select,
// goroutine start/exit, file-system calls when enabled). The choice of who
// continues is a decision of the explorer (schedule variable).

type G struct {
	id      int
	name    string
	wake    chan struct{}
	done    bool
	started bool
	// blocked: predicate that tells whether the goroutine can continue
	canRun func() bool
	what   string
	held   []*lockState // locks currently held (lockset)
	result Value
}

type Sched struct {
	ex          *Exec
	gs          []*G
	cur         *G
	aborted     bool
	failure     any
	preemptions int
	maxPreempt  int
	switches    int
	quiescent   bool
	trace       []string
	lockset     *Lockset
	noYield     int
	wg          sync.WaitGroup
}

type lockState struct {
	locked   bool
	nreaders int
	writer   *G
	readers  map[*G]int
	name     string
}

// Lockset is the data-race analysis state (see lockset.go).
type Lockset struct{}

func (l *Lockset) note(ex *Exec, fr *Frame, p *Value, write bool) {}

func (ex *Exec) sched() *Sched {
	if ex.st.sched == nil {
		s := &Sched{ex: ex, maxPreempt: ex.Cfg.Bounds["preemptions"]}
		main := &G{id: 0, name: "main", wake: make(chan struct{}, 1), started: true}
		s.gs = []*G{main}
		s.cur = main
		ex.st.sched = s
	}
	return ex.st.sched
}

func (ex *Exec) curG() *G {
	if ex.st.sched == nil {
		return nil
	}
	return ex.st.sched.cur
}

func (s *Sched) abortAll() {
	s.aborted = true
	for _, g := range s.gs {
		if g.id != 0 && !g.done {
			select {
			case g.wake <- struct{}{}:
			default:
			}
		}
	}
	s.wg.Wait()
}

type abortG struct{}

// goStmt starts an interpreted goroutine.
func (ex *Exec) goStmt(fr *Frame, fv Value, args []Value) {
	s := ex.sched()
	g := &G{id: len(s.gs), wake: make(chan struct{}, 1)}
	g.name = fmt.Sprintf("g%d", g.id)
	s.gs = append(s.gs, g)
	s.wg.Add(1)
	go func() {
		defer s.wg.Done()
		<-g.wake
		defer func() {
			r := recover()
			g.done = true
			if _, ok := r.(abortG); ok || s.aborted {
				return
			}
			if r != nil {
				if gp, ok := r.(*goPanic); ok {
					// an interpreted panic in a goroutine kills the program
					r = gp
				}
				s.failure = r
			}
			s.exitCurrent(g)
		}()
		if s.aborted {
			panic(abortG{})
		}
		g.started = true
		if sf, ok := fv.(*stubFn); ok {
			sf.fn(ex, nil, args)
		} else {
			ex.callValue(nil, fv, args, false)
		}
	}()
	ex.yield("go")
}

// exitCurrent is called on the host goroutine of g when g finishes.
func (s *Sched) exitCurrent(g *G) {
	// choose a successor; main is always eventually resumed
	next := s.pick(nil)
	if s.failure != nil || next == nil {
		next = s.gs[0]
		if s.gs[0].done {
			return
		}
		if next.canRun != nil && !next.canRun() && s.failure == nil {
			// everybody is blocked: quiescent / deadlock, main decides
			s.quiescent = true
		}
	}
	s.cur = next
	next.wake <- struct{}{}
}

func (s *Sched) enabled() []*G {
	var out []*G
	for _, g := range s.gs {
		if g.done {
			continue
		}
		if g.canRun == nil || g.canRun() {
			out = append(out, g)
		}
	}
	return out
}

// pick chooses the next goroutine to run (explorer decision).
func (s *Sched) pick(cur *G) *G {
	en := s.enabled()
	if len(en) == 0 {
		return nil
	}
	curEnabled := false
	for _, g := range en {
		if g == cur {
			curEnabled = true
		}
	}
	if curEnabled && s.maxPreempt >= 0 && s.preemptions >= s.maxPreempt {
		return cur
	}
	// order: current first so that choice 0 = no switch
	if curEnabled {
		ordered := []*G{cur}
		for _, g := range en {
			if g != cur {
				ordered = append(ordered, g)
			}
		}
		en = ordered
	}
	i := s.ex.Choose(len(en))
	if curEnabled && i != 0 {
		s.preemptions++
	}
	return en[i]
}

// yield is a scheduling point for the running goroutine.
func (ex *Exec) yield(what string) {
	s := ex.st.sched
	if s == nil || s.noYield > 0 {
		return
	}
	cur := s.cur
	next := s.pick(cur)
	if next == nil || next == cur {
		return
	}
	s.switchTo(cur, next)
}

func (s *Sched) switchTo(cur, next *G) {
	s.switches++
	s.cur = next
	next.wake <- struct{}{}
	<-cur.wake
	if s.aborted {
		panic(abortG{})
	}
	if s.failure != nil && cur.id == 0 {
		f := s.failure
		s.failure = nil
		panic(f)
	}
}

// block parks the running goroutine until canRun() holds.
func (ex *Exec) block(what string, canRun func() bool) {
	s := ex.st.sched
	if canRun() {
		return
	}
	if s == nil {
		ex.reportViolation("deadlock: "+what, "deadlock", ex.posOf(nil), nil)
		ex.endPath("deadlock")
	}
	cur := s.cur
	cur.canRun = canRun
	cur.what = what
	defer func() { cur.canRun = nil; cur.what = "" }()
	for !canRun() {
		next := s.pick(nil)
		if next == nil {
			// nobody can run
			if cur.id == 0 {
				ex.reportViolation("deadlock: all goroutines blocked; main at "+what, "deadlock", 0, nil)
				ex.endPath("deadlock")
			}
			// hand over to main so it can observe quiescence
			main := s.gs[0]
			if main.done {
				panic(abortG{})
			}
			s.quiescent = true
			s.switchTo(cur, main)
			continue
		}
		if next == cur {
			continue
		}
		s.switchTo(cur, next)
	}
}

// waitQuiescent parks main until no other goroutine can make progress.
func (ex *Exec) waitQuiescent() {
	s := ex.st.sched
	if s == nil {
		return
	}
	main := s.gs[0]
	ex.block("WaitQuiescent", func() bool {
		for _, g := range s.gs[1:] {
			if g.done {
				continue
			}
			if g.canRun == nil || g.canRun() {
				return false
			}
		}
		return true
	})
	_ = main
}

// finishMain runs the remaining goroutines to completion after the harness returned.
func (s *Sched) finishMain(ex *Exec) {
	main := s.gs[0]
	for {
		all := true
		for _, g := range s.gs[1:] {
			if !g.done {
				all = false
			}
		}
		if all {
			return
		}
		en := s.enabled()
		var others []*G
		for _, g := range en {
			if g != main {
				others = append(others, g)
			}
		}
		if len(others) == 0 {
			return // remaining goroutines are blocked forever (parked); harness is done
		}
		i := ex.Choose(len(others))
		s.switchTo(main, others[i])
	}
}

// ------------------------------------------------------------------ mutexes

func (ex *Exec) lockOf(p *Value) *lockState {
	l, ok := ex.st.locks[p]
	if !ok {
		l = &lockState{readers: map[*G]int{}}
		ex.st.locks[p] = l
	}
	return l
}

func (ex *Exec) me() *G {
	if ex.st.sched != nil {
		return ex.st.sched.cur
	}
	return nil
}

func init() {
	lock := func(ex *Exec, fr *Frame, a []Value) Value {
		l := ex.lockOf(a[0].(*Value))
		ex.yield("lock")
		me := ex.me()
		ex.block("Mutex.Lock", func() bool { return !l.held() })
		l.writer = me
		l.locked = true
		return nil
	}
	unlock := func(ex *Exec, fr *Frame, a []Value) Value {
		l := ex.lockOf(a[0].(*Value))
		if !l.locked {
			ex.goPanicf(fr, "sync: unlock of unlocked mutex")
		}
		l.locked = false
		l.writer = nil
		ex.yield("unlock")
		return nil
	}
	reg("(*sync.Mutex).Lock", lock)
	reg("(*sync.Mutex).Unlock", unlock)
	reg("(*sync.Mutex).TryLock", func(ex *Exec, fr *Frame, a []Value) Value {
		l := ex.lockOf(a[0].(*Value))
		ex.yield("trylock")
		if l.held() {
			return term.False
		}
		l.writer = ex.me()
		l.locked = true
		return term.True
	})
	reg("(*sync.RWMutex).Lock", lock)
	reg("(*sync.RWMutex).Unlock", unlock)
	reg("(*sync.RWMutex).RLock", func(ex *Exec, fr *Frame, a []Value) Value {
		l := ex.lockOf(a[0].(*Value))
		ex.yield("rlock")
		ex.block("RWMutex.RLock", func() bool { return !l.locked })
		l.nreaders++
		l.readers[ex.me()]++
		return nil
	})
	reg("(*sync.RWMutex).RUnlock", func(ex *Exec, fr *Frame, a []Value) Value {
		l := ex.lockOf(a[0].(*Value))
		if l.nreaders == 0 {
			ex.goPanicf(fr, "sync: RUnlock of unlocked RWMutex")
		}
		l.nreaders--
		l.readers[ex.me()]--
		ex.yield("runlock")
		return nil
	})

	// sync/atomic.Int64 is struct{_ noCopy; _ align64; v int64}
	atomicCell := func(p Value) *Value {
		s := (*(p.(*Value))).(Struct)
		return &s[len(s)-1]
	}
	for _, ty := range []string{"Int64", "Int32", "Uint64", "Uint32"} {
		pre := "(*sync/atomic." + ty + ")."
		reg(pre+"Load", func(ex *Exec, fr *Frame, a []Value) Value {
			ex.yield("atomic")
			return *atomicCell(a[0])
		})
		reg(pre+"Store", func(ex *Exec, fr *Frame, a []Value) Value {
			ex.yield("atomic")
			*atomicCell(a[0]) = a[1]
			return nil
		})
		reg(pre+"Add", func(ex *Exec, fr *Frame, a []Value) Value {
			ex.yield("atomic")
			c := atomicCell(a[0])
			*c = term.Add((*c).(*term.T), a[1].(*term.T))
			return *c
		})
		reg(pre+"Swap", func(ex *Exec, fr *Frame, a []Value) Value {
			ex.yield("atomic")
			c := atomicCell(a[0])
			old := *c
			*c = a[1]
			return old
		})
		reg(pre+"CompareAndSwap", func(ex *Exec, fr *Frame, a []Value) Value {
			ex.yield("atomic")
			c := atomicCell(a[0])
			if ex.Branch(term.Eq((*c).(*term.T), a[1].(*term.T))) {
				*c = a[2]
				return term.True
			}
			return term.False
		})
	}
	reg("(*sync/atomic.Bool).Load", func(ex *Exec, fr *Frame, a []Value) Value {
		ex.yield("atomic")
		v := *atomicCell(a[0])
		return term.Not(term.Eq(v.(*term.T), term.Const(0, 32)))
	})
	reg("(*sync/atomic.Bool).Store", func(ex *Exec, fr *Frame, a []Value) Value {
		ex.yield("atomic")
		*atomicCell(a[0]) = term.Ite(a[1].(*term.T), term.Const(1, 32), term.Const(0, 32))
		return nil
	})
}

func (l *lockState) held() bool { return l.locked || l.nreaders > 0 }

// ------------------------------------------------------------------ channels

type Chan struct {
	buf      []Value
	capacity int
	closed   bool
	elem     types.Type
	// rendezvous for unbuffered channels
	recvWaiting int
	handoff     []Value
	id          int
}

func newChan(n int, elem types.Type) *Chan {
	return &Chan{capacity: n, elem: elem}
}

func (ex *Exec) chanSend(fr *Frame, c *Chan, v Value) {
	ex.yield("send")
	if c == nil {
		ex.block("send on nil channel", func() bool { return false })
	}
	if c.closed {
		ex.goPanicf(fr, "send on closed channel")
	}
	if c.capacity > 0 {
		ex.block("chan send", func() bool { return c.closed || len(c.buf) < c.capacity })
		if c.closed {
			ex.goPanicf(fr, "send on closed channel")
		}
		c.buf = append(c.buf, copyVal(v))
		return
	}
	// unbuffered: wait for a receiver to be waiting
	ex.block("chan send (unbuffered)", func() bool { return c.closed || c.recvWaiting > len(c.handoff) })
	if c.closed {
		ex.goPanicf(fr, "send on closed channel")
	}
	c.handoff = append(c.handoff, copyVal(v))
	ex.yield("send-handoff")
}

func (ex *Exec) chanRecv(fr *Frame, c *Chan) (Value, bool) {
	ex.yield("recv")
	if c == nil {
		ex.block("receive from nil channel", func() bool { return false })
	}
	if c.capacity > 0 {
		ex.block("chan recv", func() bool { return c.closed || len(c.buf) > 0 })
		if len(c.buf) > 0 {
			v := c.buf[0]
			c.buf = c.buf[1:]
			return v, true
		}
		return zero(c.elem), false
	}
	c.recvWaiting++
	ex.block("chan recv (unbuffered)", func() bool { return c.closed || len(c.handoff) > 0 })
	c.recvWaiting--
	if len(c.handoff) > 0 {
		v := c.handoff[0]
		c.handoff = c.handoff[1:]
		return v, true
	}
	return zero(c.elem), false
}

func (ex *Exec) chanClose(fr *Frame, c *Chan) {
	ex.yield("close")
	if c == nil {
		ex.goPanicf(fr, "close of nil channel")
	}
	if c.closed {
		ex.goPanicf(fr, "close of closed channel")
	}
	c.closed = true
}

func (c *Chan) canRecv() bool {
	return c != nil && (c.closed || len(c.buf) > 0 || len(c.handoff) > 0)
}

func (c *Chan) canSend() bool {
	if c == nil {
		return false
	}
	if c.closed {
		return true // will panic
	}
	if c.capacity > 0 {
		return len(c.buf) < c.capacity
	}
	return c.recvWaiting > len(c.handoff)
}

func (ex *Exec) selectOp(fr *Frame, in *ssa.Select) Value {
	ex.yield("select")
	type st struct {
		c    *Chan
		send bool
		v    Value
	}
	var states []st
	for _, s := range in.States {
		c, _ := ex.get(fr, s.Chan).(*Chan)
		e := st{c: c, send: s.Dir == types.SendOnly}
		if e.send {
			e.v = ex.get(fr, s.Send)
		}
		states = append(states, e)
	}
	ready := func() []int {
		var r []int
		for i, s := range states {
			if s.send && s.c.canSend() || !s.send && s.c.canRecv() {
				r = append(r, i)
			}
		}
		return r
	}
	// register as waiting receiver on unbuffered channels while blocked
	if !in.Blocking && len(ready()) == 0 {
		return ex.selectResult(in, -1, nil, false)
	}
	for _, s := range states {
		if !s.send && s.c != nil && s.c.capacity == 0 {
			s.c.recvWaiting++
		}
	}
	ex.block("select", func() bool { return len(ready()) > 0 })
	for _, s := range states {
		if !s.send && s.c != nil && s.c.capacity == 0 {
			s.c.recvWaiting--
		}
	}
	r := ready()
	i := r[ex.Choose(len(r))]
	s := states[i]
	if s.send {
		if s.c.closed {
			ex.goPanicf(fr, "send on closed channel")
		}
		if s.c.capacity > 0 {
			s.c.buf = append(s.c.buf, copyVal(s.v))
		} else {
			s.c.handoff = append(s.c.handoff, copyVal(s.v))
		}
		return ex.selectResult(in, i, nil, false)
	}
	var v Value
	ok := false
	switch {
	case len(s.c.buf) > 0:
		v, ok = s.c.buf[0], true
		s.c.buf = s.c.buf[1:]
	case len(s.c.handoff) > 0:
		v, ok = s.c.handoff[0], true
		s.c.handoff = s.c.handoff[1:]
	default:
		v = zero(s.c.elem)
	}
	return ex.selectResult(in, i, v, ok)
}

func (ex *Exec) selectResult(in *ssa.Select, idx int, v Value, ok bool) Value {
	res := Tuple{mkInt(int64(idx)), mkBool(ok)}
	for i, s := range in.States {
		if s.Dir == types.RecvOnly {
			if i == idx {
				res = append(res, v)
			} else {
				res = append(res, zero(s.Chan.Type().Underlying().(*types.Chan).Elem()))
			}
		}
	}
	return res
}

// noteAccess is the hook of the lockset analysis (enabled by the C08 harnesses).
func (ex *Exec) noteAccess(fr *Frame, p *Value, write bool) {
	if ex.st.sched == nil || ex.st.sched.lockset == nil {
		return
	}
	ex.st.sched.lockset.note(ex, fr, p, write)
}
