package exec

import (
	"encoding/json"
	"fmt"
	"path/filepath"

	"gosym/term"
)

// Crash model (C05 / C06). While a vrt.Crashable closure runs, every call of a
// file-system mutation made by klevdb code (os.OpenFile with a write flag,
// Write, Sync, Rename, Remove, Chtimes, MkdirAll, io.Copy) is a crash point:
// the explorer decides whether the process dies right before the call takes
// effect. Mode 5 (crash consistency): an append may additionally be torn, i.e.
// a symbolic prefix of its bytes reaches the file. Mode 6 (durability): at the
// crash every file is cut back to a symbolic length between its last fsynced
// length and its current length (tail loss), directory operations being durable.

type crashNow struct{}

type crashState struct {
	armed   bool
	mode    int
	taps    int
	crashed bool
	tap     int    // index of the crash point
	kind    string // call kind at the crash point
	torn    *term.T
	cuts    []crashCut
}

type crashCut struct {
	path Value
	v    *term.T
}

func (ex *Exec) crash() *crashState {
	if ex.st.crashSt == nil {
		ex.st.crashSt = &crashState{}
	}
	return ex.st.crashSt
}

// crashPoint is called by the mutating stubs before they take effect.
// tornLen > 0: the call appends that many bytes to inode (torn variants).
func (ex *Exec) crashPoint(fr *Frame, kind string, in *Inode, bs []*term.T) {
	cs := ex.st.crashSt
	if cs == nil || !cs.armed {
		return
	}
	// only calls made by klevdb code count (not the harness, not library models)
	if fr == nil || fr.fn == nil || fr.fn.Pkg == nil || !inModule(fr.fn.Pkg) || isHarnessPkg(fr.fn.Pkg.Pkg.Path()) {
		return
	}
	idx := cs.taps
	cs.taps++
	if only, ok := ex.Cfg.Bounds["fix.crashtap"]; ok && only != idx {
		// this worker explores the crash at one call index only
		return
	}
	if ex.Choose(2) == 0 {
		return
	}
	cs.crashed = true
	cs.tap = idx
	cs.kind = kind
	if cs.mode == 5 && in != nil && len(bs) > 0 {
		// torn append: a prefix of t bytes (0 <= t < len) reaches the file
		n := ex.concSize(in, "torn append")
		t := ex.NewInput("crash.torn", 64)
		ex.Assume(term.And(term.Sle(mkInt(0), t), term.Slt(t, mkInt(int64(len(bs))))))
		if n < 8 {
			// the first 8 bytes of a file (the file header) are written atomically
			ex.Assume(term.Or(term.Eq(t, mkInt(0)), term.Sle(mkInt(int64(8-n)), t)))
		}
		in.Data = append(in.Data[:n:n], bs...)
		in.Size = term.Add(mkInt(int64(n)), t)
		cs.torn = t
	}
	panic(crashNow{})
}

func isHarnessPkg(path string) bool {
	return len(path) > len(ModulePrefix)+18 && path[len(ModulePrefix):len(ModulePrefix)+18] == "/internal/zzverif/"
}

// afterCrash: process death. Open handles and locks vanish; in mode 6 unsynced
// file tails are lost.
func (ex *Exec) afterCrash(powerLoss bool) {
	cs := ex.crash()
	ex.releaseAllFlocks()
	ex.st.locks = map[*Value]*lockState{}
	if cs.mode == 6 && powerLoss {
		for _, e := range ex.fs().Files {
			in := e.Inode
			if in.cutDone {
				continue
			}
			n := ex.concSize(in, "tail loss")
			if in.Synced >= n {
				continue
			}
			v := ex.NewInput("crash.cut", 64)
			ex.Assume(term.And(term.Sle(mkInt(int64(in.Synced)), v), term.Sle(v, mkInt(int64(n)))))
			if in.Synced < 8 {
				ex.Assume(term.Or(term.Eq(v, mkInt(0)), term.Sle(mkInt(8), v)))
			}
			in.Size = v
			in.cutDone = true
			cs.cuts = append(cs.cuts, crashCut{path: e.Path, v: v})
		}
		for _, e := range ex.fs().Files {
			e.Inode.cutDone = false
		}
	}
}

// crashExtra describes the crash of the current path under a model (for the
// native replay): tap index, torn length, surviving lengths by file name.
func (ex *Exec) crashExtra(model map[string]uint64) map[string]string {
	cs := ex.st.crashSt
	if cs == nil {
		return nil
	}
	out := map[string]string{"crash_mode": fmt.Sprint(cs.mode), "crash_taps_seen": fmt.Sprint(cs.taps)}
	if cs.crashed {
		out["crash_tap"] = fmt.Sprint(cs.tap)
		out["crash_kind"] = cs.kind
		if cs.torn != nil {
			v, _ := term.Eval(cs.torn, model, nil)
			out["crash_torn"] = fmt.Sprint(int64(v))
		}
	}
	if len(cs.cuts) > 0 {
		cuts := map[string]int64{}
		for _, c := range cs.cuts {
			v, _ := term.Eval(c.v, model, nil)
			cuts[filepath.Base(evalPath(c.path, model))] = int64(v)
		}
		b, _ := json.Marshal(cuts)
		out["crash_cuts"] = string(b)
	}
	return out
}

func evalPath(p Value, model map[string]uint64) string {
	switch v := p.(type) {
	case string:
		return v
	case *Rope:
		s := ""
		for _, pt := range v.parts {
			if pt.t != nil {
				x, _ := term.Eval(pt.t, model, nil)
				s += fmt.Sprintf("%020d", int64(x))
			} else {
				s += pt.s
			}
		}
		return s
	}
	return fmt.Sprint(p)
}

func init() {
	// Crashable(dir, f) (imageDir string, crashed bool)
	reg(vrtPkg+"Crashable", func(ex *Exec, fr *Frame, a []Value) Value {
		cs := ex.crash()
		cs.mode = ex.Cfg.Bounds["crash_mode"]
		if cs.mode == 0 {
			cs.mode = 5
		}
		cs.armed = true
		crashed := false
		func() {
			defer func() {
				if r := recover(); r != nil {
					if _, ok := r.(crashNow); ok {
						crashed = true
						return
					}
					panic(r)
				}
			}()
			ex.callValue(fr, a[1], nil, false)
		}()
		cs.armed = false
		ex.afterCrash(true)
		return Tuple{a[0], mkBool(crashed)}
	})
	reg(vrtPkg+"CrashTaps", func(ex *Exec, fr *Frame, a []Value) Value {
		return mkInt(int64(ex.crash().taps))
	})
}
