// Package smt drives one incremental SMT solver process (z3 -in by default)
// with an assertion stack, scoped term definitions and model extraction.
package smt

import (
	"bufio"
	"fmt"
	"io"
	"os"
	"os/exec"
	"strconv"
	"strings"
	"time"

	"gosym/term"
)

type Result int

const (
	Unsat Result = iota
	Sat
	Unknown
)

func (r Result) String() string { return [...]string{"unsat", "sat", "unknown"}[r] }

type Stats struct {
	Queries  int
	Sat      int
	Unsat    int
	Unknown  int
	Errors   int
	SolverNs int64
	SlowNs   int64 // time in queries slower than 50 ms
	Slow     int
	Retried  int // unknown answers decided unsat by a fresh solver process
	MaxNs    int64
}

type Solver struct {
	Name  string
	cmd   *exec.Cmd
	in    io.WriteCloser
	out   *bufio.Reader
	level int
	// defined[id] = level at which the term (or declaration) was introduced
	defined   map[int]int
	declUF    map[string]int
	scopes    [][]int    // term ids defined per level
	scopeUF   [][]string // UF names declared per level
	Stats     Stats
	Dump      io.Writer  // optional transcript
	lines     [][]string // declarations, definitions and assertions sent per level (for retryFresh)
	TimeoutMs int
}

// Kinds of solver back ends.
func command(kind string, timeoutMs int) (string, []string) {
	switch kind {
	case "z3-new":
		return "z3-new", []string{"-in", fmt.Sprintf("-t:%d", timeoutMs)}
	case "cvc5":
		return "cvc5", []string{"--incremental", "--produce-models", "--lang=smt2", fmt.Sprintf("--tlimit-per=%d", timeoutMs)}
	default:
		return "z3", []string{"-in", fmt.Sprintf("-t:%d", timeoutMs)}
	}
}

func New(kind string, timeoutMs int) (*Solver, error) {
	name, args := command(kind, timeoutMs)
	cmd := exec.Command(name, args...)
	in, err := cmd.StdinPipe()
	if err != nil {
		return nil, err
	}
	out, err := cmd.StdoutPipe()
	if err != nil {
		return nil, err
	}
	cmd.Stderr = os.Stderr
	if err := cmd.Start(); err != nil {
		return nil, err
	}
	s := &Solver{Name: kind, cmd: cmd, in: in, out: bufio.NewReaderSize(out, 1<<16),
		defined: map[int]int{}, declUF: map[string]int{}, scopes: [][]int{nil}, scopeUF: [][]string{nil}, lines: [][]string{nil}, TimeoutMs: timeoutMs}
	if kind == "cvc5" {
		s.send("(set-logic ALL)")
	}
	s.send("(set-option :produce-models true)")
	return s, nil
}

func (s *Solver) Close() {
	if s.cmd != nil {
		s.in.Close()
		s.cmd.Process.Kill()
		s.cmd.Wait()
		s.cmd = nil
	}
}

func (s *Solver) send(line string) {
	if s.Dump != nil {
		fmt.Fprintln(s.Dump, line)
	}
	io.WriteString(s.in, line)
	io.WriteString(s.in, "\n")
	if strings.HasPrefix(line, "(declare-") || strings.HasPrefix(line, "(define-") || strings.HasPrefix(line, "(assert ") {
		s.lines[s.level] = append(s.lines[s.level], line)
	}
}

func (s *Solver) Level() int { return s.level }

func (s *Solver) Push() {
	s.send("(push 1)")
	s.level++
	s.lines = append(s.lines, nil)
	s.scopes = append(s.scopes, nil)
	s.scopeUF = append(s.scopeUF, nil)
}

func (s *Solver) Pop() {
	if s.level == 0 {
		panic("pop at level 0")
	}
	s.send("(pop 1)")
	for _, id := range s.scopes[s.level] {
		delete(s.defined, id)
	}
	for _, n := range s.scopeUF[s.level] {
		delete(s.declUF, n)
	}
	s.scopes = s.scopes[:s.level]
	s.scopeUF = s.scopeUF[:s.level]
	s.lines = s.lines[:s.level]
	s.level--
}

// PopTo pops until the stack has the given level.
func (s *Solver) PopTo(level int) {
	for s.level > level {
		s.Pop()
	}
}

func tname(t *term.T) string { return "t" + strconv.Itoa(t.ID) }

// ref returns the text that denotes t, emitting definitions as needed.
func (s *Solver) ref(t *term.T) string {
	switch t.Kind {
	case term.KConst:
		return t.Head(nil)
	case term.KVar:
		if _, ok := s.defined[t.ID]; !ok {
			s.send(fmt.Sprintf("(declare-const %s %s)", t.Name, term.SortOf(t.W)))
			s.mark(t.ID)
		}
		return t.Name
	}
	if _, ok := s.defined[t.ID]; ok {
		return tname(t)
	}
	// iterative post-order to avoid deep recursion on long chains
	type fr struct {
		t *term.T
		i int
	}
	stack := []fr{{t, 0}}
	for len(stack) > 0 {
		f := &stack[len(stack)-1]
		if f.i < len(f.t.Args) {
			a := f.t.Args[f.i]
			f.i++
			if a.Kind == term.KConst {
				continue
			}
			if _, ok := s.defined[a.ID]; ok {
				continue
			}
			if a.Kind == term.KVar {
				s.send(fmt.Sprintf("(declare-const %s %s)", a.Name, term.SortOf(a.W)))
				s.mark(a.ID)
				continue
			}
			stack = append(stack, fr{a, 0})
			continue
		}
		cur := f.t
		stack = stack[:len(stack)-1]
		if _, ok := s.defined[cur.ID]; ok {
			continue
		}
		if cur.Kind == term.KApp {
			if _, ok := s.declUF[cur.Name]; !ok {
				var sb strings.Builder
				for i, a := range cur.Args {
					if i > 0 {
						sb.WriteString(" ")
					}
					sb.WriteString(term.SortOf(a.W))
				}
				s.send(fmt.Sprintf("(declare-fun %s (%s) %s)", cur.Name, sb.String(), term.SortOf(cur.W)))
				s.declUF[cur.Name] = s.level
				s.scopeUF[s.level] = append(s.scopeUF[s.level], cur.Name)
			}
		}
		body := cur.Head(func(a *term.T) string {
			switch a.Kind {
			case term.KConst:
				return a.Head(nil)
			case term.KVar:
				return a.Name
			}
			return tname(a)
		})
		s.send(fmt.Sprintf("(define-fun %s () %s %s)", tname(cur), term.SortOf(cur.W), body))
		s.mark(cur.ID)
	}
	return tname(t)
}

func (s *Solver) mark(id int) {
	s.defined[id] = s.level
	s.scopes[s.level] = append(s.scopes[s.level], id)
}

func (s *Solver) Assert(t *term.T) {
	if t.W != 0 {
		panic("assert of non-bool")
	}
	r := s.ref(t)
	s.send("(assert " + r + ")")
}

func (s *Solver) readLine() (string, error) {
	line, err := s.out.ReadString('\n')
	return strings.TrimSpace(line), err
}

// Check runs check-sat on the current stack.
func (s *Solver) Check() Result {
	t0 := time.Now()
	s.send("(check-sat)")
	res := Unknown
	for {
		line, err := s.readLine()
		if err != nil {
			s.Stats.Errors++
			break
		}
		if line == "" {
			continue
		}
		if strings.HasPrefix(line, "(error") {
			s.Stats.Errors++
			fmt.Fprintln(os.Stderr, "solver error:", line)
			continue // the verdict line still follows
		}
		switch line {
		case "sat":
			res = Sat
		case "unsat":
			res = Unsat
		case "unknown", "timeout":
			res = Unknown
		default:
			fmt.Fprintln(os.Stderr, "solver: unexpected output:", line)
			s.Stats.Errors++
			continue
		}
		break
	}
	if res == Unknown {
		// The incremental process can be stuck in a bad state for a query that a
		// fresh process decides at once: re-decide the same stack from scratch. Only
		// an unsat answer is taken over (a sat answer would need the model of the
		// other process): unknown -> unsat is sound because the transcript holds
		// exactly the assertions of the live levels.
		if s.retryFresh() == Unsat {
			res = Unsat
			s.Stats.Retried++
		}
	}
	dt := time.Since(t0).Nanoseconds()
	s.Stats.SolverNs += dt
	if dt > 50e6 {
		s.Stats.Slow++
		s.Stats.SlowNs += dt
	}
	if dt > s.Stats.MaxNs {
		s.Stats.MaxNs = dt
	}
	s.Stats.Queries++
	switch res {
	case Sat:
		s.Stats.Sat++
	case Unsat:
		s.Stats.Unsat++
	default:
		s.Stats.Unknown++
	}
	return res
}

// retryFresh re-decides the current assertion stack in a new solver process.
func (s *Solver) retryFresh() Result {
	name, args := command(s.Name, s.TimeoutMs)
	cmd := exec.Command(name, args...)
	in, err := cmd.StdinPipe()
	if err != nil {
		return Unknown
	}
	out, err := cmd.StdoutPipe()
	if err != nil {
		return Unknown
	}
	if err := cmd.Start(); err != nil {
		return Unknown
	}
	defer func() {
		cmd.Process.Kill()
		cmd.Wait()
	}()
	w := bufio.NewWriterSize(in, 1<<16)
	if s.Name == "cvc5" {
		w.WriteString("(set-logic ALL)\n")
	}
	for _, lvl := range s.lines[:s.level+1] {
		for _, l := range lvl {
			w.WriteString(l)
			w.WriteByte('\n')
		}
	}
	w.WriteString("(check-sat)\n")
	if w.Flush() != nil {
		return Unknown
	}
	in.Close()
	res := Unknown
	sc := bufio.NewScanner(out)
	sc.Buffer(make([]byte, 1<<16), 1<<24)
	for sc.Scan() {
		line := strings.TrimSpace(sc.Text())
		if strings.HasPrefix(line, "(error") {
			return Unknown
		}
		switch line {
		case "sat":
			res = Sat
		case "unsat":
			res = Unsat
		}
	}
	return res
}

// CheckWith checks the stack plus extra assertions in a temporary scope.
// If the result is Sat and want is non-empty, the values of those terms are returned.
func (s *Solver) CheckWith(extra []*term.T, want []*term.T) (Result, map[int]uint64) {
	// definitions are emitted at the current (stable) level so that they survive
	// the temporary scope of this query
	var erefs []string
	for _, e := range extra {
		erefs = append(erefs, s.ref(e))
	}
	var refs []string
	for _, w := range want {
		refs = append(refs, s.ref(w))
	}
	s.Push()
	for _, r := range erefs {
		s.send("(assert " + r + ")")
	}
	r := s.Check()
	var vals map[int]uint64
	if r == Sat && len(want) > 0 {
		vals = s.getValues(want, refs)
	}
	s.Pop()
	return r, vals
}

// GetValues returns values for terms after a Sat Check on the current stack.
func (s *Solver) GetValues(want []*term.T) map[int]uint64 {
	var refs []string
	for _, w := range want {
		refs = append(refs, s.ref(w))
	}
	return s.getValues(want, refs)
}

func (s *Solver) getValues(want []*term.T, refs []string) map[int]uint64 {
	vals := map[int]uint64{}
	const chunk = 200
	for i := 0; i < len(want); i += chunk {
		j := min(i+chunk, len(want))
		s.send("(get-value (" + strings.Join(refs[i:j], " ") + "))")
		txt := s.readSexp()
		parseValues(txt, want[i:j], vals)
	}
	return vals
}

// readSexp reads one balanced s-expression from the solver.
func (s *Solver) readSexp() string {
	var sb strings.Builder
	depth := 0
	started := false
	for {
		line, err := s.out.ReadString('\n')
		if err != nil {
			break
		}
		for _, c := range line {
			if c == '(' {
				depth++
				started = true
			} else if c == ')' {
				depth--
			}
		}
		sb.WriteString(line)
		if started && depth <= 0 {
			break
		}
	}
	return sb.String()
}

// parseValues parses "((name value) (name value) ...)" in order.
func parseValues(txt string, want []*term.T, vals map[int]uint64) {
	// tokens: values are #x.., #b.., true, false, or (_ bvN w)
	toks := tokenize(txt)
	// structure: ( ( ref val ) ( ref val ) ... )
	i := 0
	next := func() string {
		if i < len(toks) {
			t := toks[i]
			i++
			return t
		}
		return ""
	}
	if next() != "(" {
		return
	}
	for k := 0; k < len(want); k++ {
		if next() != "(" {
			return
		}
		// skip ref (may itself be an s-expr)
		skipSexp(toks, &i)
		// value
		tok := next()
		var v uint64
		switch {
		case tok == "true":
			v = 1
		case tok == "false":
			v = 0
		case strings.HasPrefix(tok, "#x"):
			v, _ = strconv.ParseUint(tok[2:], 16, 64)
		case strings.HasPrefix(tok, "#b"):
			v, _ = strconv.ParseUint(tok[2:], 2, 64)
		case tok == "(":
			// (_ bvN w)
			next() // _
			bv := next()
			next() // w
			next() // )
			v, _ = strconv.ParseUint(strings.TrimPrefix(bv, "bv"), 10, 64)
		}
		vals[want[k].ID] = v
		next() // )
	}
}

func skipSexp(toks []string, i *int) {
	if *i >= len(toks) {
		return
	}
	if toks[*i] != "(" {
		*i++
		return
	}
	depth := 0
	for *i < len(toks) {
		switch toks[*i] {
		case "(":
			depth++
		case ")":
			depth--
		}
		*i++
		if depth == 0 {
			return
		}
	}
}

func tokenize(s string) []string {
	var toks []string
	cur := strings.Builder{}
	flush := func() {
		if cur.Len() > 0 {
			toks = append(toks, cur.String())
			cur.Reset()
		}
	}
	for _, c := range s {
		switch c {
		case '(', ')':
			flush()
			toks = append(toks, string(c))
		case ' ', '\n', '\t', '\r':
			flush()
		default:
			cur.WriteRune(c)
		}
	}
	flush()
	return toks
}
