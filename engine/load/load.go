// Package load builds the SSA program of /repo's current working tree plus the
// overlay harness packages.
package load

import (
	"fmt"
	"os"
	"path/filepath"
	"strings"

	"golang.org/x/tools/go/packages"
	"golang.org/x/tools/go/ssa"
	"golang.org/x/tools/go/ssa/ssautil"
)

const Module = "github.com/klev-dev/klevdb"

// Overlay maps every file under harnessDir to a virtual path under
// <repo>/internal/zzverif/.
func Overlay(repo, harnessDir string) (map[string][]byte, error) {
	ov := map[string][]byte{}
	err := filepath.Walk(harnessDir, func(p string, info os.FileInfo, err error) error {
		if err != nil {
			return err
		}
		if info.IsDir() || !strings.HasSuffix(p, ".go") {
			return nil
		}
		rel, _ := filepath.Rel(harnessDir, p)
		data, err := os.ReadFile(p)
		if err != nil {
			return err
		}
		ov[filepath.Join(repo, "internal", "zzverif", rel)] = data
		return nil
	})
	return ov, err
}

type Program struct {
	Prog *ssa.Program
	Pkgs map[string]*ssa.Package
}

func Load(repo, harnessDir string, patterns ...string) (*Program, error) {
	ov, err := Overlay(repo, harnessDir)
	if err != nil {
		return nil, err
	}
	cfg := &packages.Config{
		Mode:       packages.LoadAllSyntax,
		Dir:        repo,
		BuildFlags: []string{"-tags=verif"},
		Overlay:    ov,
		Env:        append(os.Environ(), "GOFLAGS=-mod=mod", "GOPROXY=off"),
	}
	pkgs, err := packages.Load(cfg, patterns...)
	if err != nil {
		return nil, err
	}
	var errs []string
	packages.Visit(pkgs, nil, func(p *packages.Package) {
		for _, e := range p.Errors {
			errs = append(errs, e.Error())
		}
	})
	if len(errs) > 0 {
		return nil, fmt.Errorf("load errors:\n%s", strings.Join(errs, "\n"))
	}
	prog, _ := ssautil.AllPackages(pkgs, ssa.InstantiateGenerics)
	prog.Build()
	out := &Program{Prog: prog, Pkgs: map[string]*ssa.Package{}}
	for _, p := range prog.AllPackages() {
		out.Pkgs[p.Pkg.Path()] = p
	}
	return out, nil
}
