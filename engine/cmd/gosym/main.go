// gosym: symbolic execution of klevdb's go/ssa form against an SMT solver.
//
//	gosym run   -harness h_index.IndexConsume [-b items=6,...]     one harness, in process
//	gosym check -prop C03 -tier quick                                 all harnesses of a property
package main

import (
	"runtime/pprof"
	"flag"
	"fmt"
	"os"
	"strconv"
	"strings"
	"time"

	"gosym/load"
)

func parseBounds(s string) map[string]int {
	m := map[string]int{}
	for _, kv := range strings.Split(s, ",") {
		if kv == "" {
			continue
		}
		p := strings.SplitN(kv, "=", 2)
		if len(p) != 2 {
			continue
		}
		v, _ := strconv.Atoi(p[1])
		m[p[0]] = v
	}
	return m
}

func main() {
	if len(os.Args) < 2 {
		fmt.Fprintln(os.Stderr, "usage: gosym run|check|conformance ...")
		os.Exit(2)
	}
	switch os.Args[1] {
	case "run":
		fs := flag.NewFlagSet("run", flag.ExitOnError)
		harness := fs.String("harness", "", "pkg.Func")
		b := fs.String("b", "", "bounds k=v,...")
		repo := fs.String("repo", "/repo", "")
		hdir := fs.String("harness-dir", "/verif/harness", "")
		solver := fs.String("solver", "z3", "z3|z3-new|cvc5")
		tmo := fs.Int("timeout-ms", 10000, "per query")
		budget := fs.Duration("budget", 0, "time budget")
		out := fs.String("out", "-", "result json")
		verbose := fs.Int("v", 0, "")
		knownF := fs.String("known", "/verif/known_findings.json", "")
		prof := fs.String("cpuprofile", "", "")
		fs.Parse(os.Args[2:])
		if *prof != "" {
			f, _ := os.Create(*prof)
			pprof.StartCPUProfile(f)
			defer pprof.StopCPUProfile()
		}
		t0 := time.Now()
		p, err := load.Load(*repo, *hdir, "./...")
		if err != nil {
			fmt.Fprintln(os.Stderr, err)
			os.Exit(2)
		}
		known := loadKnown(*knownF)
		res := runWorker(p, time.Since(t0).Seconds(), *harness, parseBounds(*b), *solver, *tmo, *budget, known, *verbose)
		writeJSON(*out, res)
		if *prof != "" {
			pprof.StopCPUProfile()
		}
	case "check":
		os.Exit(cmdCheck(os.Args[2:]))
	case "serve":
		os.Exit(cmdServe(os.Args[2:]))
	case "replay":
		os.Exit(cmdReplay(os.Args[2:]))
	case "warm":
		// build the native replay binary once so that the go build cache is warm
		os.MkdirAll("/verif/out/warm", 0755)
		if out, err := buildReplay("/repo", "/verif/harness", "/verif/out/warm", "/verif/out/warm/replay.test"); err != nil {
			fmt.Fprintln(os.Stderr, out, err)
			os.Exit(1)
		}
	default:
		fmt.Fprintln(os.Stderr, "unknown command", os.Args[1])
		os.Exit(2)
	}
}
