package main

import (
	"encoding/json"
	"fmt"
	"os"
	"sort"
	"strings"
	"time"

	"golang.org/x/tools/go/ssa"

	"gosym/exec"
	"gosym/load"
	"gosym/smt"
	"gosym/term"
)

// WorkerResult is what one harness run (one worker process) reports.
type WorkerResult struct {
	Harness     string            `json:"harness"`
	Bounds      map[string]int    `json:"bounds"`
	Paths       int               `json:"paths"`
	PathsDone   int               `json:"paths_done"`
	PathsInfeas int               `json:"paths_infeasible"`
	Instrs      int64             `json:"instrs"`
	Obligations int               `json:"obligations"`
	Discharged  int               `json:"discharged"`
	UnknownObl  int               `json:"unknown_obligations"`
	UnknownBr   int               `json:"unknown_branches"`
	UnwindHits  int               `json:"unwind_hits"`
	ConcCapHits int               `json:"conc_cap_hits"`
	Forks       int               `json:"forks"`
	Unsupported map[string]int    `json:"unsupported"`
	Violations  []*exec.Violation `json:"violations"`
	Reached     map[string]int    `json:"reached"`
	Witnesses   []*exec.Witness   `json:"witnesses"`
	Funcs       map[string]int64  `json:"funcs"`
	Stubs       map[string]int    `json:"stubs"`
	Samples     []string          `json:"samples"`
	Assumes     []string          `json:"assumes"`
	Queries     int               `json:"queries"`
	Sat         int               `json:"sat"`
	Unsat       int               `json:"unsat"`
	Unknown     int               `json:"unknown"`
	SolverErrs  int               `json:"solver_errors"`
	SolverS     float64           `json:"solver_s"`
	SlowQ       int               `json:"slow_queries"`
	SlowS       float64           `json:"slow_queries_s"`
	MaxQS       float64           `json:"max_query_s"`
	Retried     int               `json:"decided_by_fresh_solver"`
	WallS       float64           `json:"wall_s"`
	LoadS       float64           `json:"load_s"`
	Terms       int               `json:"terms"`
	TimedOut    bool              `json:"timed_out"`
	KnownHit    map[string]bool   `json:"known_hit"`
	Error       string            `json:"error,omitempty"`
}

func findHarness(p *load.Program, name string) (*ssa.Function, error) {
	// name: h_index.IndexConsume
	i := strings.LastIndex(name, ".")
	if i < 0 {
		return nil, fmt.Errorf("bad harness name %q", name)
	}
	pkg := p.Pkgs[load.Module+"/internal/zzverif/"+name[:i]]
	if pkg == nil {
		return nil, fmt.Errorf("harness package %q not found", name[:i])
	}
	fn := pkg.Func(name[i+1:])
	if fn == nil {
		return nil, fmt.Errorf("harness function %q not found", name)
	}
	return fn, nil
}

func runWorker(p *load.Program, loadS float64, harness string, bounds map[string]int, solverKind string, timeoutMs int, budget time.Duration, known map[string]string, verbose int) *WorkerResult {
	t0 := time.Now()
	res := &WorkerResult{Harness: harness, Bounds: bounds, LoadS: loadS}
	fn, err := findHarness(p, harness)
	if err != nil {
		res.Error = err.Error()
		return res
	}
	s, err := smt.New(solverKind, timeoutMs)
	if err != nil {
		res.Error = err.Error()
		return res
	}
	defer s.Close()
	if d := os.Getenv("GOSYM_DUMP"); d != "" {
		f, _ := os.Create(d)
		defer f.Close()
		s.Dump = f
	}
	cfg := exec.Config{Bounds: bounds, Known: known, Verbose: verbose, TimeBudget: budget, WantWitness: true}
	if v, ok := bounds["conc_cap"]; ok {
		cfg.ConcCap = v
	}
	if v, ok := bounds["loop_budget"]; ok {
		cfg.LoopBudget = v
	}
	if v, ok := bounds["max_instrs"]; ok {
		cfg.MaxInstrs = int64(v)
	}
	ex := exec.NewExec(p.Prog, s, fn, cfg)
	func() {
		defer func() {
			if r := recover(); r != nil {
				res.Error = fmt.Sprintf("engine panic: %v", r)
				if verbose > 0 {
					panic(r)
				}
			}
		}()
		ex.Run()
	}()
	// schedule counterexamples: concrete re-execution of the real SSA under the
	// model's inputs and the recorded schedule (see DESIGN 10.3)
	if bounds["sched_replay"] == 1 {
		for _, v := range ex.Violations {
			if confirmConcrete(p, fn, cfg, solverKind, timeoutMs, v) {
				v.Confirmed = "engine-concrete-replay"
			}
		}
	}
	c := ex.C
	res.Paths, res.PathsDone, res.PathsInfeas = c.Paths, c.PathsDone, c.PathsInfeas
	res.Instrs = c.Instrs
	res.Obligations, res.Discharged = c.Obligations, c.Discharged
	res.UnknownObl, res.UnknownBr = c.UnknownObl, c.UnknownBr
	res.UnwindHits, res.ConcCapHits = c.UnwindHits, c.ConcCapHits
	res.Forks = c.BranchForks + c.ConcForks
	res.Unsupported = c.Unsupported
	res.Violations = ex.Violations
	res.Reached = ex.Reached
	var labels []string
	for l := range ex.Witnesses {
		labels = append(labels, l)
	}
	sort.Strings(labels)
	for _, l := range labels {
		res.Witnesses = append(res.Witnesses, ex.Witnesses[l])
	}
	res.Funcs = map[string]int64{}
	for f, n := range ex.FuncsRun {
		res.Funcs[f.String()] += n
	}
	res.Stubs = ex.StubsRun
	res.Samples = ex.Samples
	for a := range ex.Assumes {
		res.Assumes = append(res.Assumes, a)
	}
	sort.Strings(res.Assumes)
	st := s.Stats
	res.Queries, res.Sat, res.Unsat, res.Unknown, res.SolverErrs = st.Queries, st.Sat, st.Unsat, st.Unknown, st.Errors
	res.SolverS = float64(st.SolverNs) / 1e9
	res.SlowQ, res.SlowS, res.MaxQS = st.Slow, float64(st.SlowNs)/1e9, float64(st.MaxNs)/1e9
	res.Retried = st.Retried
	res.WallS = time.Since(t0).Seconds()
	res.Terms = term.NumTerms()
	res.TimedOut = ex.TimedOut
	res.KnownHit = ex.KnownHit
	return res
}

func writeJSON(path string, v any) error {
	data, err := json.MarshalIndent(v, "", " ")
	if err != nil {
		return err
	}
	if path == "-" {
		_, err = os.Stdout.Write(append(data, '\n'))
		return err
	}
	return os.WriteFile(path, data, 0644)
}

// confirmConcrete re-executes the harness with the counterexample's concrete
// inputs and scheduler choices; the same assertion must fail.
func confirmConcrete(p *load.Program, fn *ssa.Function, cfg exec.Config, solverKind string, timeoutMs int, v *exec.Violation) bool {
	s, err := smt.New(solverKind, timeoutMs)
	if err != nil {
		return false
	}
	defer s.Close()
	c2 := cfg
	c2.Concrete = map[string]uint64{}
	for _, in := range v.Inputs {
		c2.Concrete[in.Name] = in.Value
	}
	c2.Choices = v.Choices
	c2.WantWitness = false
	c2.Known = nil
	ex := exec.NewExec(p.Prog, s, fn, c2)
	ok := false
	func() {
		defer func() { recover() }()
		ex.RunConcrete()
	}()
	for _, w := range ex.Violations {
		if w.Label == v.Label && w.Kind == v.Kind {
			ok = true
		}
	}
	return ok
}
