package main

// SplitDim: a shape variable the driver enumerates (one worker job per value).
type SplitDim struct {
	Name  string
	Count func(b map[string]int) int
}

type HarnessRun struct {
	Name     string
	Quick    map[string]int
	Thorough map[string]int
	Split    []SplitDim
	Reach    []string
}

type Prop struct {
	ID          string
	DesignRef   string
	Runs        []HarnessRun
	Assumptions []string
}

func plus1(name string) func(map[string]int) int {
	return func(b map[string]int) int { return b[name] + 1 }
}
func same(name string) func(map[string]int) int {
	return func(b map[string]int) int { return b[name] }
}

type B = map[string]int

// numLayouts mirrors kit.Layouts: record-count vectors with <= segs segments of
// <= recs records, non-head segments non-empty.
func numLayouts(b map[string]int) int {
	var count func(left int) int
	count = func(left int) int {
		n := b["recs"] + 1
		if left > 1 {
			n += b["recs"] * count(left-1)
		}
		return n
	}
	return count(b["segs"])
}

var globalAssumptions = []string{
	"amd64 (int = 64 bit); all integer arithmetic is encoded as wrapping bit-vector arithmetic",
	"claims hold within the stated bounds only (see coverage.harnesses[*].bounds); larger inputs are outside the claim",
}

var props = map[string]*Prop{}

func addProp(p *Prop) {
	p.Assumptions = append(p.Assumptions, globalAssumptions...)
	props[p.ID] = p
}

func init() {
	idxConsume := HarnessRun{Name: "h_index.IndexConsume", Quick: B{"items": 6}, Thorough: B{"items": 10},
		Split: []SplitDim{{"n", plus1("items")}}, Reach: []string{"empty", "oldest", "newest", "after-end", "middle"}}
	idxGet := HarnessRun{Name: "h_index.IndexGet", Quick: B{"items": 6}, Thorough: B{"items": 10},
		Split: []SplitDim{{"n", plus1("items")}}, Reach: []string{"before-start", "after-end", "found", "hole"}}
	idxTime := HarnessRun{Name: "h_index.IndexTime", Quick: B{"items": 6}, Thorough: B{"items": 10},
		Split: []SplitDim{{"n", plus1("items")}}, Reach: []string{"before", "after", "equal-run"}}
	segConsume := HarnessRun{Name: "h_index.SegmentConsume", Quick: B{"segments": 5}, Thorough: B{"segments": 8},
		Split: []SplitDim{{"n", same("segments")}}, Reach: []string{"middle"}}
	segGet := HarnessRun{Name: "h_index.SegmentGet", Quick: B{"segments": 5}, Thorough: B{"segments": 8},
		Split: []SplitDim{{"n", same("segments")}}, Reach: []string{"before"}}
	minOff := HarnessRun{Name: "h_index.MinOffsetOrder", Quick: B{"mapsize": 4, "map_orders": 4}, Thorough: B{"mapsize": 5, "map_orders": 5},
		Split: []SplitDim{{"n", plus1("mapsize")}}}

	layoutSplit := []SplitDim{{"layout", numLayouts}, {"ver", same("vers")}, {"prof", same("profs")}}
	dirQ := B{"segs": 2, "recs": 2, "vers": 3, "profs": 2}
	dirT := B{"segs": 3, "recs": 2, "vers": 4, "profs": 3}
	qConsume := HarnessRun{Name: "h_log.QueryConsume", Quick: dirQ, Thorough: dirT, Split: layoutSplit,
		Reach: []string{"newest", "beyond-next", "non-empty", "empty-result", "empty-head-with-older-segments", "single-empty-segment", "multi-segment"}}
	cursor := HarnessRun{Name: "h_log.Cursor", Quick: dirQ, Thorough: dirT, Split: layoutSplit, Reach: []string{"cursor-done"}}
	qGet := HarnessRun{Name: "h_log.QueryGet", Quick: dirQ, Thorough: dirT, Split: layoutSplit,
		Reach: []string{"oldest", "newest", "unassigned", "live", "deleted", "relative-empty"}}

	addProp(&Prop{ID: "C03", DesignRef: "DESIGN.md §4 C03", Runs: []HarnessRun{idxConsume, segConsume, qConsume, cursor}})
	addProp(&Prop{ID: "C04", DesignRef: "DESIGN.md §4 C04", Runs: []HarnessRun{idxGet, segGet, qGet}})
	qTime := HarnessRun{Name: "h_log.QueryTime", Quick: dirQ, Thorough: dirT, Split: layoutSplit,
		Reach: []string{"index-rebuilt", "no-live-message", "empty-head", "after-all", "equal-run", "multi-segment", "empty-head-with-older-segments"}}
	noIndex := HarnessRun{Name: "h_log.NoIndex", Quick: B{"segs": 2, "recs": 1, "vers": 1, "profs": 1}, Split: layoutSplit, Reach: []string{"noindex"}}
	addProp(&Prop{ID: "C10", DesignRef: "DESIGN.md §4 C10", Runs: []HarnessRun{idxTime, qTime, noIndex},
		Assumptions: []string{"message times never decrease with offset and are not before 1970-01-01 (pre-1970 times: see known finding C10-negative-times)", "query times at 1 microsecond granularity"}})
	qKey := HarnessRun{Name: "h_log.QueryKey", Quick: B{"segs": 2, "recs": 2, "vers": 3, "profs": 2, "keylen": 1}, Thorough: B{"segs": 3, "recs": 2, "vers": 4, "profs": 3, "keylen": 2}, Split: layoutSplit,
		Reach: []string{"index-rebuilt", "uf:hash-collision", "absent", "present", "empty-key-present"}}
	addProp(&Prop{ID: "C09", DesignRef: "DESIGN.md §4 C09", Runs: []HarnessRun{qKey, noIndex},
		Assumptions: []string{"FNV-1a-64 is an uninterpreted function: the solver is free to make any two keys collide"}})
	lenCount := func(name string) func(map[string]int) int {
		return func(b map[string]int) int {
			if b["all_"+name] == 1 {
				return 301
			}
			return 10
		}
	}
	two := func(map[string]int) int { return 2 }
	codecSplit := []SplitDim{{"v1", two}, {"klen", lenCount("klen")}, {"vlen", lenCount("vlen")}}
	roundTrip := HarnessRun{Name: "h_codec.RoundTrip", Quick: B{}, Thorough: B{"all_klen": 1}, Split: codecSplit, Reach: []string{"roundtrip"}}
	roundTrip2 := HarnessRun{Name: "h_codec.RoundTrip", Quick: B{"all_vlen": 1, "quick_skip": 1}, Thorough: B{"all_vlen": 1}, Split: codecSplit, Reach: []string{"roundtrip"}}
	cross := HarnessRun{Name: "h_codec.Cross", Quick: B{}, Thorough: B{"all_klen": 1}, Split: codecSplit, Reach: []string{"cross"}}
	idxFmt := HarnessRun{Name: "h_codec.IndexFormat", Quick: B{"items": 3}, Thorough: B{"items": 6},
		Split: []SplitDim{{"v1", two}, {"times", two}, {"keys", two}}, Reach: []string{"index"}}
	qStat := HarnessRun{Name: "h_log.QueryStat", Quick: dirQ, Thorough: dirT, Split: layoutSplit, Reach: []string{"stat", "multi-segment", "single-empty-segment"}}
	addProp(&Prop{ID: "C13", DesignRef: "DESIGN.md §4 C13", Runs: []HarnessRun{roundTrip, roundTrip2, cross, idxFmt, qStat},
		Assumptions: []string{"CRC32C is an uninterpreted function of the byte string (equal byte ranges => equal CRC; nothing else)", "key/value lengths: quick {0,1,2,3,7,8,9,255,256,300}^2; thorough every length 0..300 in one dimension against the ten lengths in the other; longer payloads outside the claim"}})
	recSplit := []SplitDim{{"v1", two}, {"n", same("recs")}, {"prof", same("profs")}, {"times", two}, {"keys", two}}
	recQ := B{"recs": 2, "profs": 2}
	recT := B{"recs": 3, "profs": 3}
	truncated := HarnessRun{Name: "h_recover.Truncated", Quick: recQ, Thorough: recT, Split: recSplit,
		Reach: []string{"clean", "cut-to-zero", "cut-inside-record-header", "cut-inside-record-data"}}
	byteChanged := HarnessRun{Name: "h_recover.ByteChanged", Quick: B{"recs": 2, "profs": 1, "append_after": 1, "alloc_cap": 96, "conc_cap": 128}, Thorough: B{"recs": 3, "profs": 2, "append_after": 1, "alloc_cap": 128, "conc_cap": 160},
		Split: []SplitDim{{"v1", func(map[string]int) int { return 1 }}, {"n", same("recs")}, {"prof", same("profs")}, {"times", two}, {"keys", two}, {"index", two},
			{"region", func(b map[string]int) int { return 8 * b["recs"] }}},
		Reach: []string{"byte-changed"}}
	indexDamage := HarnessRun{Name: "h_recover.IndexDamage", Quick: recQ, Thorough: recT,
		Split: append(append([]SplitDim{}, recSplit...), SplitDim{"kind", func(map[string]int) int { return 3 }}),
		Reach: []string{"index-truncated", "index-byte-changed", "index-extra-item"}}
	addProp(&Prop{ID: "C07", DesignRef: "DESIGN.md §4 C07", Runs: []HarnessRun{truncated, byteChanged, indexDamage},
		Assumptions: []string{"ReadAt follows its documented contract: n = min(len(p), max(0, size-off)) and io.EOF iff n < len(p) (never io.ErrUnexpectedEOF)",
			"CRC32C is an uninterpreted function; a changed record is assumed not to verify by an accidental checksum collision (probability 2^-32)",
			"message times never decrease with offset and are not before 1970 when a time index is configured"}})
	stepSplit := []SplitDim{{"layout", numLayouts}, {"ver", same("vers")}, {"prof", same("profs")}, {"params", same("paramsets")}, {"rmindex", same("rmindex")}}
	stepQ := B{"segs": 2, "recs": 2, "vers": 3, "profs": 1, "paramsets": 2, "rmindex": 2, "batch": 2, "deletes": 2}
	stepPublish := HarnessRun{Name: "h_step.Publish", Quick: stepQ, Split: stepSplit, Reach: []string{"rollover", "empty-batch", "empty-batch-with-rollover", "zero-time"}}
	stepDelete := HarnessRun{Name: "h_step.Delete", Quick: stepQ, Split: stepSplit, Reach: []string{"empty-set", "negative-offset", "deleted-some", "head-emptied", "reader-segment-emptied", "head-rebased", "reader-segment-rebased", "head-tail-deleted"}}
	stepReopen := HarnessRun{Name: "h_step.Reopen", Quick: stepQ, Split: stepSplit, Reach: []string{"eager-migrate", "readonly"}}
	stepDelMulti := HarnessRun{Name: "h_step.DeleteMulti", Quick: stepQ, Split: stepSplit, Reach: []string{"deletemulti", "everything-deleted"}}
	stepMigrate := HarnessRun{Name: "h_step.Migrate", Quick: stepQ, Split: stepSplit, Reach: []string{"migrate"}}
	addProp(&Prop{ID: "T01", DesignRef: "scratch", Runs: []HarnessRun{stepPublish, stepDelete, stepReopen, stepDelMulti, stepMigrate}})
	addProp(&Prop{ID: "C12", DesignRef: "DESIGN.md §4 C12", Runs: []HarnessRun{minOff}})
}
