package main

// SplitDim: a shape variable the driver enumerates (one worker job per value).
type SplitDim struct {
	Name  string
	Count func(b map[string]int) int
}

type HarnessRun struct {
	Name     string
	Quick    map[string]int
	Thorough map[string]int
	Split    []SplitDim
	Reach    []string
}

type Prop struct {
	ID          string
	DesignRef   string
	Runs        []HarnessRun
	Assumptions []string
}

// deepen derives the thorough bounds of a directory harness from its quick
// bounds: one more segment (at most 3) with the total number of messages capped
// at what the quick shapes reach (so that the new layouts are the ones with more
// segment boundaries, not bigger logs).
func deepen(q B) B {
	t := B{}
	for k, v := range q {
		t[k] = v
	}
	if v, ok := t["segs"]; ok && v < 3 {
		if _, has := t["maxmsgs"]; !has {
			t["maxmsgs"] = v * t["recs"]
		}
		t["segs"] = v + 1
	}
	return t
}

// heavyHarness: harnesses whose cost grows steeply with the directory shape
// (state-changing steps, crash points, schedules). Their thorough tier keeps the
// quick shapes and adds one more format-version pattern (or content profile).
func heavyHarness(name string) bool {
	for _, p := range []string{"h_step.", "h_helpers.", "h_backup.", "h_crash.", "h_conc.", "h_damage."} {
		if len(name) >= len(p) && name[:len(p)] == p {
			return true
		}
	}
	return false
}

func deepenHeavy(q B) B {
	t := B{}
	for k, v := range q {
		t[k] = v
	}
	if v, ok := t["vers"]; ok && v < 4 {
		t["vers"] = v + 1
	} else if v, ok := t["profs"]; ok && v < 2 {
		t["profs"] = v + 1
	}
	return t
}

func plus1(name string) func(map[string]int) int {
	return func(b map[string]int) int { return b[name] + 1 }
}
func same(name string) func(map[string]int) int {
	return func(b map[string]int) int { return b[name] }
}

type B = map[string]int

// numLayouts mirrors kit.Layouts: record-count vectors with <= segs segments of
// <= recs records, non-head segments non-empty.
func numLayouts(b map[string]int) int {
	var count func(left int) int
	count = func(left int) int {
		n := b["recs"] + 1
		if left > 1 {
			n += b["recs"] * count(left-1)
		}
		return n
	}
	return count(b["segs"])
}

var globalAssumptions = []string{
	"amd64 (int = 64 bit); all integer arithmetic is encoded as wrapping bit-vector arithmetic",
	"claims hold within the stated bounds only (see coverage.harnesses[*].bounds); larger inputs are outside the claim",
}

var props = map[string]*Prop{}

func addProp(p *Prop) {
	p.Assumptions = append(p.Assumptions, globalAssumptions...)
	props[p.ID] = p
}

func init() {
	two := func(map[string]int) int { return 2 }
	idxConsume := HarnessRun{Name: "h_index.IndexConsume", Quick: B{"items": 6}, Thorough: B{"items": 10},
		Split: []SplitDim{{"n", plus1("items")}}, Reach: []string{"empty", "oldest", "newest", "after-end", "middle"}}
	idxGet := HarnessRun{Name: "h_index.IndexGet", Quick: B{"items": 6}, Thorough: B{"items": 10},
		Split: []SplitDim{{"n", plus1("items")}}, Reach: []string{"before-start", "after-end", "found", "hole"}}
	idxTime := HarnessRun{Name: "h_index.IndexTime", Quick: B{"items": 6}, Thorough: B{"items": 10},
		Split: []SplitDim{{"n", plus1("items")}}, Reach: []string{"before", "after", "equal-run"}}
	segConsume := HarnessRun{Name: "h_index.SegmentConsume", Quick: B{"segments": 5}, Thorough: B{"segments": 8},
		Split: []SplitDim{{"n", same("segments")}}, Reach: []string{"middle"}}
	segGet := HarnessRun{Name: "h_index.SegmentGet", Quick: B{"segments": 5}, Thorough: B{"segments": 8},
		Split: []SplitDim{{"n", same("segments")}}, Reach: []string{"before"}}
	minOff := HarnessRun{Name: "h_index.MinOffsetOrder", Quick: B{"mapsize": 4, "map_orders": 4}, Thorough: B{"mapsize": 5, "map_orders": 5},
		Split: []SplitDim{{"n", plus1("mapsize")}}}

	layoutSplit := []SplitDim{{"layout", numLayouts}, {"ver", same("vers")}, {"prof", same("profs")}}
	dirQ := B{"segs": 2, "recs": 2, "vers": 3, "profs": 2}
	var dirT B // thorough = deepen(quick)
	qConsume := HarnessRun{Name: "h_log.QueryConsume", Quick: dirQ, Thorough: dirT, Split: layoutSplit,
		Reach: []string{"newest", "beyond-next", "non-empty", "empty-result", "empty-head-with-older-segments", "single-empty-segment", "multi-segment"}}
	cursor := HarnessRun{Name: "h_log.Cursor", Quick: dirQ, Thorough: dirT, Split: layoutSplit, Reach: []string{"cursor-done"}}
	qGet := HarnessRun{Name: "h_log.QueryGet", Quick: dirQ, Thorough: dirT, Split: layoutSplit,
		Reach: []string{"oldest", "newest", "unassigned", "live", "deleted", "relative-empty"}}

	addProp(&Prop{ID: "C03", DesignRef: "DESIGN.md §4 C03", Runs: []HarnessRun{idxConsume, segConsume, qConsume, cursor,
		{Name: "h_step.Delete", Quick: B{"segs": 2, "recs": 2, "vers": 1, "profs": 1, "paramsets": 1, "rmindex": 1, "deletes": 1}, Thorough: B{"segs": 3, "recs": 2, "vers": 2, "profs": 1, "paramsets": 1, "rmindex": 1, "deletes": 2},
			Split: []SplitDim{{"layout", numLayouts}, {"ver", same("vers")}, {"prof", same("profs")}, {"params", same("paramsets")}, {"rmindex", same("rmindex")}, {"session", two}}, Reach: []string{"head-tail-deleted", "head-rebased", "reader-segment-emptied", "read-before-delete"}},
		{Name: "h_log.Session", Quick: B{"segs": 2, "recs": 1, "vers": 1, "profs": 1, "calls": 2, "fix.view": 2}, Thorough: B{"segs": 2, "recs": 2, "vers": 2, "profs": 1, "calls": 2, "fix.view": 2},
			Split: []SplitDim{{"layout", numLayouts}, {"ver", same("vers")}, {"prof", same("profs")}, {"roll", two}, {"calls", same("calls")}, {"gc", two}}, Reach: []string{"session", "gc-then-read"}}}})
	addProp(&Prop{ID: "C04", DesignRef: "DESIGN.md §4 C04", Runs: []HarnessRun{idxGet, segGet, qGet}})
	qTime := HarnessRun{Name: "h_log.QueryTime", Quick: dirQ, Thorough: dirT, Split: layoutSplit,
		Reach: []string{"index-rebuilt", "no-live-message", "empty-head", "after-all", "equal-run", "multi-segment", "empty-head-with-older-segments"}}
	noIndex := HarnessRun{Name: "h_log.NoIndex", Quick: B{"segs": 2, "recs": 1, "vers": 1, "profs": 1}, Split: layoutSplit, Reach: []string{"noindex"}}
	session := HarnessRun{Name: "h_log.Session", Quick: B{"segs": 2, "recs": 1, "vers": 1, "profs": 1, "calls": 2}, Thorough: B{"segs": 2, "recs": 2, "vers": 2, "profs": 1, "calls": 2},
		Split: append(append([]SplitDim{}, layoutSplit...), SplitDim{"roll", two}, SplitDim{"calls", same("calls")}, SplitDim{"view", func(map[string]int) int { return 3 }}), Reach: []string{"session", "equal-run"}}
	addProp(&Prop{ID: "C10", DesignRef: "DESIGN.md §4 C10", Runs: []HarnessRun{idxTime, qTime, noIndex, session},
		Assumptions: []string{"message times never decrease with offset and are not before 1970-01-01 (pre-1970 times: see known finding C10-negative-times)", "query times at 1 microsecond granularity"}})
	qKey := HarnessRun{Name: "h_log.QueryKey", Quick: B{"segs": 2, "recs": 2, "vers": 3, "profs": 2, "keylen": 1}, Thorough: B{"segs": 3, "recs": 2, "maxmsgs": 4, "vers": 3, "profs": 2, "keylen": 1}, Split: layoutSplit,
		Reach: []string{"index-rebuilt", "uf:hash-collision", "absent", "present", "empty-key-present"}}
	qKeyCursor := HarnessRun{Name: "h_log.QueryKey", Quick: B{"segs": 2, "recs": 2, "maxmsgs": 3, "vers": 1, "profs": 1, "keylen": 1, "cursor_check": 1}, Thorough: B{"segs": 2, "recs": 2, "vers": 2, "profs": 2, "keylen": 1, "cursor_check": 1}, Split: layoutSplit,
		Reach: []string{"cursor-before-first-segment"}}
	qKeyReal := HarnessRun{Name: "h_log.QueryKeyReal", Quick: B{"segs": 2, "recs": 1, "vers": 1, "profs": 1, "realkeys": 3}, Thorough: B{"segs": 2, "recs": 2, "vers": 2, "profs": 1, "realkeys": 5},
		Split: []SplitDim{{"layout", numLayouts}, {"ver", same("vers")}, {"prof", same("profs")}}, Reach: []string{"real-hash-collision"}}
	addProp(&Prop{ID: "C09", DesignRef: "DESIGN.md §4 C09", Runs: []HarnessRun{qKey, qKeyCursor, qKeyReal, noIndex, session},
		Assumptions: []string{"FNV-1a-64 is an uninterpreted function: the solver is free to make any two keys collide"}})
	lenCount := func(name string) func(map[string]int) int {
		return func(b map[string]int) int {
			if b["all_"+name] == 1 {
				return 301
			}
			return 10
		}
	}
	codecSplit := []SplitDim{{"v1", two}, {"klen", lenCount("klen")}, {"vlen", lenCount("vlen")}}
	roundTrip := HarnessRun{Name: "h_codec.RoundTrip", Quick: B{}, Thorough: B{"all_klen": 1}, Split: codecSplit, Reach: []string{"roundtrip"}}
	roundTrip2 := HarnessRun{Name: "h_codec.RoundTrip", Quick: B{"all_vlen": 1, "quick_skip": 1}, Thorough: B{"all_vlen": 1}, Split: codecSplit, Reach: []string{"roundtrip"}}
	cross := HarnessRun{Name: "h_codec.Cross", Quick: B{}, Thorough: B{"all_klen": 1}, Split: codecSplit, Reach: []string{"cross"}}
	idxFmt := HarnessRun{Name: "h_codec.IndexFormat", Quick: B{"items": 3}, Thorough: B{"items": 6},
		Split: []SplitDim{{"v1", two}, {"times", two}, {"keys", two}}, Reach: []string{"index"}}
	qStat := HarnessRun{Name: "h_log.QueryStat", Quick: dirQ, Thorough: dirT, Split: layoutSplit, Reach: []string{"stat", "multi-segment", "single-empty-segment"}}
	addProp(&Prop{ID: "C13", DesignRef: "DESIGN.md §4 C13", Runs: []HarnessRun{roundTrip, roundTrip2, cross, idxFmt, qStat},
		Assumptions: []string{"CRC32C is an uninterpreted function of the byte string (equal byte ranges => equal CRC; nothing else)", "key/value lengths: quick {0,1,2,3,7,8,9,255,256,300}^2; thorough every length 0..300 in one dimension against the ten lengths in the other; longer payloads outside the claim"}})
	recSplit := []SplitDim{{"v1", two}, {"n", same("recs")}, {"prof", same("profs")}, {"times", two}, {"keys", two}}
	recQ := B{"recs": 2, "profs": 2}
	recT := B{"recs": 3, "profs": 3}
	truncated := HarnessRun{Name: "h_recover.Truncated", Quick: recQ, Thorough: recT, Split: recSplit,
		Reach: []string{"clean", "cut-to-zero", "cut-inside-record-header", "cut-inside-record-data"}}
	byteChanged := HarnessRun{Name: "h_recover.ByteChanged", Quick: B{"recs": 2, "profs": 1, "append_after": 1, "alloc_cap": 96, "conc_cap": 128}, Thorough: B{"recs": 3, "profs": 2, "append_after": 1, "alloc_cap": 128, "conc_cap": 160},
		Split: []SplitDim{{"v1", func(map[string]int) int { return 1 }}, {"n", same("recs")}, {"prof", same("profs")}, {"times", two}, {"keys", two}, {"index", two},
			{"region", func(b map[string]int) int { return 8 * b["recs"] }}},
		Reach: []string{"byte-changed"}}
	indexDamage := HarnessRun{Name: "h_recover.IndexDamage", Quick: recQ, Thorough: recT,
		Split: append(append([]SplitDim{}, recSplit...), SplitDim{"kind", func(map[string]int) int { return 3 }}),
		Reach: []string{"index-truncated", "index-byte-changed", "index-extra-item"}}
	truncAny := HarnessRun{Name: "h_recover.Truncated", Quick: B{"recs": 3, "profs": 1, "anytimes": 1, "fix.n": 2, "fix.times": 1, "fix.keys": 0}, Thorough: B{"recs": 3, "profs": 1, "anytimes": 1, "fix.n": 2, "fix.times": 1},
		Split: []SplitDim{{"v1", two}, {"prof", same("profs")}}, Reach: []string{"clean"}}
	addProp(&Prop{ID: "C07", DesignRef: "DESIGN.md §4 C07", Runs: []HarnessRun{truncated, byteChanged, indexDamage, truncAny},
		Assumptions: []string{"ReadAt follows its documented contract: n = min(len(p), max(0, size-off)) and io.EOF iff n < len(p) (never io.ErrUnexpectedEOF)",
			"CRC32C is an uninterpreted function; a changed record is assumed not to verify by an accidental checksum collision (probability 2^-32)",
			"message times never decrease with offset and are not before 1970 when a time index is configured"}})
	stepSplit := []SplitDim{{"layout", numLayouts}, {"ver", same("vers")}, {"prof", same("profs")}, {"params", same("paramsets")}, {"rmindex", same("rmindex")}}
	stepSplitDelete := append(append([]SplitDim{}, stepSplit...), SplitDim{"session", two})
	// bounds: segs/recs = directory shape; vers = version patterns (1: V2 only, 2: +all V1, 3: +V1 segments with a V2 head, 4: +V2 segments with a V1 head);
	// paramsets = index configurations (1: times+keys, 2: +none, 3: +times only, 4: +keys only); rmindex = index-file removal patterns (1: none, 2: +all, 3: +first, 4: +head)
	step := func(name string, q, t B, reach ...string) HarnessRun {
		sp := stepSplit
		if name == "Delete" {
			sp = stepSplitDelete
		}
		return HarnessRun{Name: "h_step." + name, Quick: q, Thorough: t, Split: sp, Reach: reach}
	}
	var stepT B // thorough = deepen(quick)
	delReach := []string{"empty-set", "negative-offset", "deleted-some", "head-emptied", "reader-segment-emptied", "head-rebased", "reader-segment-rebased", "head-tail-deleted"}
	// C01: content fidelity across publish / delete / reopen
	addProp(&Prop{ID: "C01", DesignRef: "DESIGN.md §4 C01, §3.5", Runs: []HarnessRun{
		step("Publish", B{"segs": 2, "recs": 2, "vers": 1, "profs": 1, "paramsets": 2, "rmindex": 1, "batch": 2}, stepT, "rollover", "empty-batch", "empty-batch-with-rollover", "zero-time"),
		step("Delete", B{"segs": 2, "recs": 2, "vers": 1, "profs": 1, "paramsets": 1, "rmindex": 2, "deletes": 1}, stepT, "deleted-some", "head-emptied", "reader-segment-emptied", "head-rebased", "reader-segment-rebased", "head-tail-deleted"),
		step("Reopen", B{"segs": 2, "recs": 2, "vers": 2, "profs": 1, "paramsets": 1, "rmindex": 2}, stepT, "eager-migrate", "readonly", "all-index-files-removed"),
	}, Assumptions: []string{"one inductive step from an arbitrary well-formed directory (DESIGN §3.2, §3.5); in-session chains longer than the harness performs are outside the claim",
		"Check/Recover reopen with a time index only for non-decreasing, non-negative times"}})
	// C02: offsets
	addProp(&Prop{ID: "C02", DesignRef: "DESIGN.md §4 C02", Runs: []HarnessRun{
		step("Reuse", B{"segs": 2, "recs": 2, "vers": 2, "profs": 1, "paramsets": 1, "rmindex": 1}, stepT, "all-deleted", "tail-deleted", "empty-head-reopened"),
		step("Publish", B{"segs": 2, "recs": 1, "vers": 1, "profs": 1, "paramsets": 2, "rmindex": 1, "batch": 2}, stepT, "rollover", "empty-batch", "empty-batch-with-rollover"),
		step("Reuse", B{"segs": 1, "recs": 3, "vers": 1, "profs": 1, "paramsets": 1, "rmindex": 1}, B{"segs": 2, "recs": 3, "vers": 2, "profs": 1, "paramsets": 2, "rmindex": 1}, "tail-deleted"),
		step("Delete", B{"quick_skip": 1}, B{"segs": 1, "recs": 3, "vers": 2, "profs": 1, "paramsets": 2, "rmindex": 1, "deletes": 2}, "deleted-some"),
		qStat,
	}})
	// C11: index files are derived data
	addProp(&Prop{ID: "C11", DesignRef: "DESIGN.md §4 C11", Runs: []HarnessRun{
		step("Reopen", B{"segs": 2, "recs": 1, "vers": 2, "profs": 1, "paramsets": 4, "rmindex": 4}, stepT, "all-index-files-removed", "readonly"),
		step("Delete", B{"segs": 2, "recs": 2, "vers": 1, "profs": 1, "paramsets": 1, "rmindex": 2, "deletes": 1}, stepT, "deleted-some"),
		step("Migrate", B{"segs": 2, "recs": 2, "vers": 3, "profs": 1, "paramsets": 2, "rmindex": 2}, stepT, "migrate"),
		step("Publish", B{"segs": 2, "recs": 1, "vers": 1, "profs": 1, "paramsets": 1, "rmindex": 4, "batch": 1}, stepT, "rollover"),
		{Name: qKey.Name, Quick: B{"quick_skip": 1}, Thorough: qKey.Quick, Split: qKey.Split, Reach: qKey.Reach},
		{Name: qTime.Name, Quick: B{"quick_skip": 1}, Thorough: qTime.Quick, Split: qTime.Split, Reach: qTime.Reach},
	}, Assumptions: []string{"index timestamps are compared with message times only when times never decrease with offset (and are not before 1970)"}})
	// C17: migration and mixed versions
	addProp(&Prop{ID: "C17", DesignRef: "DESIGN.md §4 C17", Runs: []HarnessRun{
		step("Migrate", B{"segs": 2, "recs": 2, "vers": 4, "profs": 2, "paramsets": 2, "rmindex": 1}, stepT, "migrate"),
		step("Reopen", B{"segs": 2, "recs": 2, "vers": 4, "profs": 1, "paramsets": 1, "rmindex": 1}, stepT, "eager-migrate"),
		step("Delete", B{"segs": 2, "recs": 2, "vers": 4, "profs": 1, "paramsets": 1, "rmindex": 1, "deletes": 1}, stepT, "deleted-some", "head-rebased", "reader-segment-rebased", "rewritten-segment-version"),
		step("Publish", B{"segs": 2, "recs": 1, "vers": 4, "profs": 1, "paramsets": 1, "rmindex": 1, "batch": 1}, stepT, "rollover"),
	}})
	stepDelete := step("Delete", B{"segs": 2, "recs": 2, "vers": 2, "profs": 1, "paramsets": 1, "rmindex": 2, "deletes": 1}, stepT, delReach...)
	stepDelete2 := step("Delete", B{"segs": 2, "recs": 1, "vers": 1, "profs": 1, "paramsets": 1, "rmindex": 1, "deletes": 2}, B{"quick_skip": 0, "segs": 2, "recs": 2, "vers": 2, "profs": 1, "paramsets": 1, "rmindex": 1, "deletes": 3}, "deleted-some")
	stepDelMulti := step("DeleteMulti", B{"segs": 2, "recs": 2, "vers": 2, "profs": 1, "paramsets": 2, "rmindex": 2}, stepT, "deletemulti", "everything-deleted")
	// C14: damaged records
	dmgB := B{"recs": 2, "profs": 1, "alloc_cap": 96, "conc_cap": 128, "max_alloc": 67108900}
	dmgT := B{"recs": 3, "profs": 2, "alloc_cap": 160, "conc_cap": 192, "max_alloc": 67108900}
	regionN := func(b map[string]int) int { return 8 * b["recs"] }
	readOver := HarnessRun{Name: "h_damage.ReadOverwritten", Quick: dmgB, Thorough: dmgT,
		Split: []SplitDim{{"n", same("recs")}, {"prof", same("profs")}, {"region", regionN}, {"kind", two}, {"mem", two}},
		Reach: []string{"one-byte-overwrite", "eight-byte-overwrite", "zero-filled-tail"}}
	readTrunc := HarnessRun{Name: "h_damage.ReadTruncated", Quick: dmgB, Thorough: dmgT,
		Split: []SplitDim{{"n", same("recs")}, {"prof", same("profs")}, {"mem", two}}, Reach: []string{"truncated"}}
	dirOver := HarnessRun{Name: "h_damage.DirOverwritten", Quick: B{"segs": 2, "recs": 1, "profs": 1, "alloc_cap": 96, "conc_cap": 128, "max_alloc": 67108900},
		Thorough: B{"segs": 2, "recs": 2, "profs": 1, "alloc_cap": 128, "conc_cap": 160, "max_alloc": 67108900},
		Split: []SplitDim{{"layout", numLayouts}, {"dseg", same("segs")}, {"region", regionN}, {"kind", two}}, Reach: []string{"dir-damaged"}}
	dirTrunc := HarnessRun{Name: "h_damage.DirTruncated", Quick: B{"segs": 2, "recs": 1}, Thorough: B{"segs": 2, "recs": 2},
		Split: []SplitDim{{"layout", numLayouts}, {"dseg", same("segs")}, {"cutrec", same("recs")}, {"cutpart", two}}, Reach: []string{"dir-truncated", "cut-in-header", "cut-in-data"}}
	addProp(&Prop{ID: "C14", DesignRef: "DESIGN.md §4 C14", Runs: []HarnessRun{readOver, readTrunc, dirOver, dirTrunc},
		Assumptions: []string{"CRC32C is an uninterpreted function; a record whose bytes changed is assumed not to verify by an accidental checksum collision (probability 2^-32 per damaged record); what is decided is that every byte that can influence a returned field or the framing is covered by the checksum or compared explicitly and that no path returns data without those checks",
			"allocation bound: every make() with a symbolic size is asserted to stay <= 64 MiB + 36 bytes",
			"ReadAt follows its documented contract"}})
	// C15 / C16: helpers on the real log
	helpQ := B{"segs": 2, "recs": 2, "vers": 2, "profs": 1}
	var helpT B
	help := func(name string, q, t B, reach ...string) HarnessRun {
		sp := layoutSplit
		if name == "Updates" || name == "Deletes" || name == "TrimAge" {
			sp = append(append([]SplitDim{}, layoutSplit...), SplitDim{"mono", two})
		}
		return HarnessRun{Name: "h_helpers." + name, Quick: q, Thorough: t, Split: sp, Reach: reach}
	}
	addProp(&Prop{ID: "C15", DesignRef: "DESIGN.md §4 C15", Runs: []HarnessRun{
		help("TrimOffset", helpQ, helpT, "newest", "oldest-or-negative", "inside"),
		help("TrimCount", helpQ, helpT, "over", "under"),
		help("TrimSize", B{"segs": 2, "recs": 2, "vers": 1, "profs": 1}, B{"segs": 3, "recs": 2, "vers": 1, "profs": 2}, "over", "under"),
		help("TrimAge", helpQ, helpT, "monotone", "inside"),
	}, Assumptions: []string{"times at 1 microsecond granularity", "the fixed batch size 32 of the helpers is larger than the logs explored: batch boundaries occur at segment ends only"}})
	cmpQ := B{"segs": 2, "recs": 2, "vers": 1, "profs": 2, "prof_base": 3}
	var cmpT B
	addProp(&Prop{ID: "C16", DesignRef: "DESIGN.md §4 C16", Runs: []HarnessRun{
		help("Updates", cmpQ, cmpT, "update-found"),
		help("Deletes", cmpQ, cmpT, "delete-found"),
		help("Updates", B{"segs": 2, "recs": 1, "vers": 1, "profs": 1, "prof_base": 3, "realkeys": 2}, B{"segs": 2, "recs": 2, "maxmsgs": 3, "vers": 1, "profs": 1, "prof_base": 3, "realkeys": 3}, "update-found"),
		help("Deletes", B{"segs": 2, "recs": 1, "vers": 1, "profs": 1, "prof_base": 3, "realkeys": 2}, B{"segs": 2, "recs": 2, "maxmsgs": 3, "vers": 1, "profs": 1, "prof_base": 3, "realkeys": 3}, "delete-found"),
	}, Assumptions: []string{"keys of length 1 (symbolic byte, so repeats are chosen by the solver), values of length 1 or absent"}})
	// C19 / C20
	addProp(&Prop{ID: "C19", DesignRef: "DESIGN.md §4 C19", Runs: []HarnessRun{
		{Name: "h_locks.LockMatrix", Quick: B{"steps": 4}, Thorough: B{"steps": 5}, Split: []SplitDim{{"op0", func(map[string]int) int { return 6 }}}, Reach: []string{"rw-refused", "ro-refused", "second-reader", "closed", "failed-open", "matrix-done"}},
		{Name: "h_locks.ReadonlySession", Quick: dirQ, Thorough: dirT, Split: layoutSplit, Reach: []string{"readonly-session", "without-index-files"}},
	}, Assumptions: []string{"flock(2) semantics as modelled: per open file description, exclusive excludes all, shared excludes exclusive"}})
	addProp(&Prop{ID: "C20", DesignRef: "DESIGN.md §4 C20", Runs: []HarnessRun{
		{Name: "h_backup.Backup", Quick: B{"segs": 2, "recs": 1, "vers": 2, "profs": 1, "rounds": 1, "pubs": 2}, Thorough: B{"segs": 2, "recs": 2, "maxmsgs": 3, "vers": 2, "profs": 1, "rounds": 1, "pubs": 2},
			Split: append(append([]SplitDim{}, layoutSplit...), SplitDim{"rmindex", two}, SplitDim{"vialog", two}),
			Reach: []string{"log-backup", "dir-backup", "repeated-backup", "source-without-index-files"}},
	}, Assumptions: []string{"file modification times are arbitrary non-decreasing clock values (two writes may get the same mtime); Chtimes sets them exactly"}})
	// C05 / C06: crash points
	tapsN := same("taps")
	crashSplit := []SplitDim{{"layout", numLayouts}, {"ver", same("vers")}, {"prof", same("profs")}, {"crashtap", tapsN}}
	crash := func(name string, mode int, q, t B, reach ...string) HarnessRun {
		q["crash_mode"], t["crash_mode"] = mode, mode
		if _, ok := q["conc_cap"]; !ok {
			q["conc_cap"] = 200
		}
		if _, ok := t["conc_cap"]; !ok {
			t["conc_cap"] = 200
		}
		return HarnessRun{Name: "h_crash." + name, Quick: q, Thorough: t, Split: crashSplit, Reach: reach}
	}
	addProp(&Prop{ID: "C05", DesignRef: "DESIGN.md §4 C05", Runs: []HarnessRun{
		crash("Publish", 5, B{"segs": 2, "recs": 1, "vers": 1, "profs": 1, "publishes": 1, "batch": 2, "taps": 32}, B{"segs": 2, "recs": 1, "vers": 2, "profs": 1, "publishes": 2, "batch": 1, "taps": 48}, "crashed", "completed", "inflight-prefix-survived"),
		crash("Delete", 5, B{"segs": 2, "recs": 2, "maxmsgs": 3, "vers": 1, "profs": 1, "taps": 40}, B{"segs": 2, "recs": 2, "maxmsgs": 3, "vers": 2, "profs": 1, "taps": 48}, "crashed", "applied", "not-applied"),
		crash("Migrate", 5, B{"segs": 2, "recs": 1, "vers": 2, "profs": 1, "taps": 40}, B{"segs": 2, "recs": 2, "maxmsgs": 3, "vers": 2, "profs": 1, "taps": 48}, "crashed"),
		crash("Recover", 5, B{"segs": 2, "recs": 2, "maxmsgs": 2, "vers": 2, "profs": 1, "taps": 24}, B{"segs": 2, "recs": 2, "maxmsgs": 2, "vers": 2, "profs": 1, "taps": 32}, "crashed"),
	}, Assumptions: []string{"crash model of the property: file-system calls take effect in program order; the process may die right before any mutating call of klevdb (os.OpenFile, Write, Sync, Rename, Remove, Chtimes, MkdirAll, io.Copy); an append may be torn at any byte except inside the first 8 bytes of a file; nothing else is lost (loss of unsynced data is C06)",
		"keys pairwise different and times strictly increasing in the crash workloads (coincidences are the subject of C09/C10)"}})
	addProp(&Prop{ID: "C06", DesignRef: "DESIGN.md §4 C06", Runs: []HarnessRun{
		crash("Publish", 6, B{"segs": 2, "recs": 1, "maxmsgs": 1, "vers": 1, "profs": 1, "publishes": 1, "batch": 1, "taps": 32}, B{"segs": 2, "recs": 1, "vers": 2, "profs": 1, "publishes": 2, "batch": 1, "taps": 48}, "crashed", "completed", "synced"),
		crash("Publish", 6, B{"segs": 1, "recs": 1, "vers": 1, "profs": 1, "publishes": 2, "fix.publishes": 1, "fix.roll": 1, "batch": 1, "taps": 40}, B{"quick_skip": 0, "segs": 1, "recs": 1, "vers": 1, "profs": 1, "publishes": 2, "batch": 1, "taps": 40}, "synced"),
		crash("Delete", 6, B{"segs": 2, "recs": 2, "maxmsgs": 2, "vers": 1, "profs": 1, "taps": 40, "conc_cap": 200}, B{"segs": 2, "recs": 2, "maxmsgs": 3, "vers": 1, "profs": 1, "taps": 48}, "crashed", "applied"),
	}, Assumptions: []string{"tail-loss model of the property: at the crash every file is independently cut back to any length between its last fsynced length and its current length (the first 8 bytes of a file are atomic); directory operations are durable in program order"}})
	// C18: notify and the blocking wrapper under the schedule variable
	three := func(map[string]int) int { return 3 }
	addProp(&Prop{ID: "C18", DesignRef: "DESIGN.md §4 C18, §10.6", Runs: []HarnessRun{
		{Name: "h_sync.NotifyImmediate", Quick: B{"sched_replay": 1}, Reach: []string{"below", "after-close"}},
		{Name: "h_sync.BlockingImmediate", Quick: B{"sched_replay": 1}, Reach: []string{"immediate"}},
		{Name: "h_sync.NotifyWake", Quick: B{"waiters": 1, "publishers": 2, "preemptions": 1, "sched_replay": 1},
			Split: []SplitDim{{"waiters", same("waiters")}, {"publishers", same("publishers")}, {"close", two}}, Reach: []string{"still-parked", "returned"}},
		{Name: "h_sync.NotifyWake", Quick: B{"quick_skip": 1}, Thorough: B{"waiters": 1, "publishers": 1, "preemptions": 2, "sched_replay": 1},
			Split: []SplitDim{{"close", two}}, Reach: []string{"returned"}},
		{Name: "h_sync.NotifyWake", Quick: B{"quick_skip": 1}, Thorough: B{"waiters": 2, "publishers": 1, "preemptions": 1, "sched_replay": 1},
			Split: []SplitDim{{"waiters", same("waiters")}, {"close", two}}, Reach: []string{"returned"}},
		{Name: "h_sync.BlockingWake", Quick: B{"waiters": 1, "publishers": 1, "preemptions": 1, "sched_replay": 1},
			Split: []SplitDim{{"waiters", same("waiters")}, {"publishers", same("publishers")}, {"close", two}, {"cancel", two}, {"woff", three}},
			Reach: []string{"still-parked", "returned", "cancelled", "woken-below-offset"}},
	}, Assumptions: []string{"sequential consistency; context switches only at visible operations (atomics, channel operations, select, mutex operations, goroutine start/exit)",
		"bounded: waiters, publishers and preemptive context switches as listed in coverage.harnesses[*].bounds (switches at blocking operations are free)",
		"schedule counterexamples are validated by concrete re-execution of the real SSA under the model's inputs and the recorded schedule (not by a native run: free-running goroutines do not follow a schedule)",
		"the blocking wrapper runs over a minimal sequential Log written in the harness (it only uses the Log interface)"}})
	// C08: pairs of concurrent calls on the real log under the schedule variable
	nine := func(map[string]int) int { return 9 }
	pairSplit := []SplitDim{{"layout", numLayouts}, {"ver", same("vers")}, {"prof", same("profs")}, {"rmindex", two}, {"roll", two}, {"opa", nine}, {"opb", nine}}
	addProp(&Prop{ID: "C08", DesignRef: "DESIGN.md §4 C08, §10.6", Runs: []HarnessRun{
		{Name: "h_conc.Pair", Quick: B{"segs": 2, "recs": 1, "vers": 1, "profs": 1, "preemptions": 1, "sched_replay": 1, "pairs_mutating_only": 1},
			Thorough: B{"segs": 2, "recs": 2, "maxmsgs": 3, "vers": 1, "profs": 1, "preemptions": 1, "sched_replay": 1}, Split: pairSplit,
			Reach: []string{"pair-done", "two-publishers", "consume-concurrent", "tail-consume", "index-files-removed"}},
		{Name: "h_conc.Pair", Quick: B{"quick_skip": 1}, Thorough: B{"segs": 1, "recs": 2, "vers": 1, "profs": 1, "preemptions": 2, "split_writes": 1, "sched_replay": 1, "fix.rmindex": 0, "fix.roll": 0, "fix.opa": 0, "fix.layout": 2},
			Split: []SplitDim{{"ver", same("vers")}, {"prof", same("profs")}, {"opb", nine}}, Reach: []string{"pair-done"}},
	}, Assumptions: []string{"PARTIAL claim: two concurrent calls (every pair with at least one of Publish / Delete in quick) on small directories; context switches only at visible operations (mutex, atomic, channel operations and file-system calls), sequential consistency, bounded preemptions; data-race freedom (lockset) and longer histories are NOT decided",
		"schedule counterexamples are validated by concrete re-execution of the real SSA under the model's inputs and the recorded schedule",
		"thorough adds split writes: an append may become visible in two steps (as at a page boundary)"}})
	addProp(&Prop{ID: "C12", DesignRef: "DESIGN.md §4 C12", Runs: []HarnessRun{minOff, stepDelete, stepDelete2, stepDelMulti}})
}
