package main

import (
	"bufio"
	"bytes"
	"context"
	"encoding/json"
	"flag"
	"fmt"
	"os"
	osexec "os/exec"
	"path/filepath"
	"sort"
	"strconv"
	"strings"
	"sync"
	"time"

	"gosym/exec"
	"gosym/instr"
	"gosym/load"
)

type knownEntry struct {
	Property string   `json:"property"`
	ID       string   `json:"id"`
	Status   string   `json:"status"`
	Commit   string   `json:"commit,omitempty"`
	What     string   `json:"what"`
	Labels   []string `json:"labels,omitempty"`
}

func loadKnownEntries(path string) []knownEntry {
	data, err := os.ReadFile(path)
	if err != nil {
		return nil
	}
	var f struct {
		Findings []knownEntry `json:"findings"`
	}
	if json.Unmarshal(data, &f) != nil {
		return nil
	}
	return f.Findings
}

func loadKnown(path string) map[string]string {
	m := map[string]string{}
	for _, e := range loadKnownEntries(path) {
		m[e.ID] = e.Status
		if e.Status == "known" {
			for _, l := range e.Labels {
				m["label:"+e.ID+":"+l] = "1"
			}
		}
	}
	return m
}

// job: one harness run with fixed shape variables.
type job struct {
	Harness string         `json:"harness"`
	Bounds  map[string]int `json:"bounds"`
}

type replayFile struct {
	Property string            `json:"property"`
	Harness  string            `json:"harness"`
	Bounds   map[string]int    `json:"bounds"`
	Inputs   []exec.InputVal   `json:"inputs"`
	Known    map[string]string `json:"known"`
	Label    string            `json:"label"`
	Kind     string            `json:"kind"`
	Pos      string            `json:"pos,omitempty"`
	Extra    map[string]string `json:"extra,omitempty"`
	Choices  []int             `json:"choices,omitempty"`
}

func envInt(name string, def int) int {
	if v, err := strconv.Atoi(os.Getenv(name)); err == nil {
		return v
	}
	return def
}

func expandJobs(r HarnessRun, tier string) []job {
	b := r.Quick
	if tier == "thorough" {
		switch {
		case r.Quick["quick_skip"] == 1 && r.Thorough != nil:
			b = r.Thorough // a run that exists in the thorough tier only
		case heavyHarness(r.Name):
			b = deepenHeavy(r.Quick)
		case r.Thorough != nil:
			b = r.Thorough
		default:
			if _, ok := r.Quick["segs"]; ok {
				b = deepen(r.Quick)
			}
		}
	}
	jobs := []job{{Harness: r.Name, Bounds: map[string]int{}}}
	for k, v := range b {
		jobs[0].Bounds[k] = v
	}
	for _, sd := range r.Split {
		if len(jobs) == 0 {
			break
		}
		n := sd.Count(jobs[0].Bounds)
		var next []job
		for _, j := range jobs {
			for i := 0; i < n; i++ {
				nb := map[string]int{}
				for k, v := range j.Bounds {
					nb[k] = v
				}
				nb["fix."+sd.Name] = i
				next = append(next, job{Harness: j.Harness, Bounds: nb})
			}
		}
		jobs = next
	}
	return jobs
}

func boundsStr(b map[string]int) string {
	var ks []string
	for k := range b {
		ks = append(ks, k)
	}
	sort.Strings(ks)
	var parts []string
	for _, k := range ks {
		parts = append(parts, fmt.Sprintf("%s=%d", k, b[k]))
	}
	return strings.Join(parts, ",")
}

func cmdCheck(args []string) int {
	fs := flag.NewFlagSet("check", flag.ExitOnError)
	propID := fs.String("prop", "", "property id")
	tier := fs.String("tier", "quick", "quick|thorough")
	repo := fs.String("repo", "/repo", "")
	verif := fs.String("verif", "/verif", "")
	only := fs.String("only", "", "run only harnesses containing this substring")
	workers := fs.Int("j", 16, "parallel workers")
	noReplay := fs.Bool("no-replay", false, "skip native replays (diagnosis only; never exit 0)")
	countOnly := fs.Bool("count-jobs", false, "print the number of jobs per harness run and exit")
	fs.Parse(args)
	if t := os.Getenv("VERIF_TIER"); t == "quick" || t == "thorough" {
		if !flagSet(fs, "tier") {
			*tier = t
		}
	}
	seed := envInt("VERIF_SEED", 1)
	prop, ok := props[*propID]
	if !ok {
		fmt.Fprintln(os.Stderr, "unknown property", *propID)
		return 2
	}
	if *countOnly {
		total := 0
		for _, r := range prop.Runs {
			if *tier == "quick" && r.Quick["quick_skip"] == 1 {
				continue
			}
			n := len(expandJobs(r, *tier))
			total += n
			fmt.Printf("%s %s %s: %d jobs\n", *propID, *tier, r.Name, n)
		}
		fmt.Printf("%s %s total: %d jobs\n", *propID, *tier, total)
		return 0
	}
	t0 := time.Now()
	outDir := filepath.Join(*verif, "out", *propID)
	os.RemoveAll(outDir)
	os.MkdirAll(outDir, 0755)
	os.MkdirAll(filepath.Join(*verif, "evidence"), 0755)
	knownPath := filepath.Join(*verif, "known_findings.json")
	known := loadKnown(knownPath)
	knownEntries := loadKnownEntries(knownPath)

	// 1. native replay binary, built concurrently with the exploration
	var buildErr error
	var buildOut string
	replayBin := filepath.Join(outDir, "replay.test")
	var wgBuild sync.WaitGroup
	wgBuild.Add(1)
	go func() {
		defer wgBuild.Done()
		if *noReplay {
			return
		}
		buildOut, buildErr = buildReplay(*repo, filepath.Join(*verif, "harness"), outDir, replayBin)
	}()

	// 2. jobs
	var jobs []job
	for _, r := range prop.Runs {
		if *only != "" && !strings.Contains(r.Name, *only) {
			continue
		}
		if *tier == "quick" && r.Quick["quick_skip"] == 1 {
			continue
		}
		jobs = append(jobs, expandJobs(r, *tier)...)
	}
	results := runJobs(jobs, *workers, *repo, filepath.Join(*verif, "harness"), knownPath, *tier)

	wgBuild.Wait()
	if buildErr != nil {
		fmt.Fprintf(os.Stderr, "replay build failed: %v\n%s\n", buildErr, buildOut)
	}

	// 3. merge
	ev := newEvidence(*propID, *tier, seed)
	inconclusive := []string{}
	type cand struct {
		v *exec.Violation
		j job
	}
	var cands []cand
	reachedAll := map[string]map[string]int{}
	var witnesses []struct {
		w *exec.Witness
		j job
	}
	knownHit := map[string]bool{}
	for i, r := range results {
		j := jobs[i]
		if r == nil {
			inconclusive = append(inconclusive, "worker failed for "+j.Harness+" "+boundsStr(j.Bounds))
			continue
		}
		ev.addResult(r)
		if r.Error != "" {
			inconclusive = append(inconclusive, j.Harness+": "+r.Error)
		}
		for msg, n := range r.Unsupported {
			inconclusive = append(inconclusive, fmt.Sprintf("%s: unsupported construct reached on %d path(s): %s", j.Harness, n, msg))
		}
		if r.UnknownObl > 0 {
			inconclusive = append(inconclusive, fmt.Sprintf("%s: %d obligation(s) with solver result unknown", j.Harness, r.UnknownObl))
		}
		if r.Unknown > 0 && r.UnknownObl == 0 {
			fmt.Printf("NOTE: %s [%s]: %d branch-feasibility quer(ies) undecided within the per-query cap (both sides kept; max query %.1fs)\n", j.Harness, boundsStr(j.Bounds), r.Unknown, r.MaxQS)
		}
		if r.SolverErrs > 0 {
			inconclusive = append(inconclusive, fmt.Sprintf("%s: %d solver error line(s)", j.Harness, r.SolverErrs))
		}
		if r.TimedOut {
			inconclusive = append(inconclusive, j.Harness+" "+boundsStr(j.Bounds)+": time budget exhausted before the path space was covered")
		}
		if r.ConcCapHits > 0 {
			inconclusive = append(inconclusive, fmt.Sprintf("%s: concretisation cap reached %d time(s)", j.Harness, r.ConcCapHits))
		}
		for _, v := range r.Violations {
			cands = append(cands, cand{v, j})
		}
		if reachedAll[j.Harness] == nil {
			reachedAll[j.Harness] = map[string]int{}
		}
		for l, n := range r.Reached {
			reachedAll[j.Harness][l] += n
		}
		for _, w := range r.Witnesses {
			witnesses = append(witnesses, struct {
				w *exec.Witness
				j job
			}{w, j})
		}
		for id, h := range r.KnownHit {
			if h {
				knownHit[id] = true
			}
		}
	}
	// vacuity: required reach labels
	for _, r := range prop.Runs {
		if *only != "" && !strings.Contains(r.Name, *only) {
			continue
		}
		if *tier == "quick" && r.Quick["quick_skip"] == 1 {
			continue
		}
		for _, l := range r.Reach {
			if reachedAll[r.Name][l] == 0 {
				inconclusive = append(inconclusive, fmt.Sprintf("%s: reach label %q not covered by any feasible path (vacuity check)", r.Name, l))
			}
		}
	}

	// 4. native replays
	violations := 0
	validated := 0
	var vioLines []string
	if !*noReplay && buildErr == nil {
		// witnesses: sample per harness (all in thorough)
		perHarness := map[string]int{}
		sort.SliceStable(witnesses, func(a, b int) bool {
			ha := fmt.Sprintf("%s|%s|%d", witnesses[a].j.Harness, witnesses[a].w.Label, seed)
			hb := fmt.Sprintf("%s|%s|%d", witnesses[b].j.Harness, witnesses[b].w.Label, seed)
			return hashStr(ha) < hashStr(hb)
		})
		seenWL := map[string]bool{}
		maxW := 5
		if *tier == "thorough" {
			maxW = 1000
		}
		type wjob struct {
			file  string
			label string
			h     string
		}
		var wjobs []wjob
		for _, wj := range witnesses {
			key := wj.j.Harness + "|" + wj.w.Label
			if seenWL[key] || perHarness[wj.j.Harness] >= maxW {
				continue
			}
			if wj.j.Bounds["sched_replay"] == 1 {
				// free-running native goroutines do not follow the model's schedule
				continue
			}
			if strings.HasPrefix(wj.w.Label, "uf:") {
				// the model relies on the freedom of an uninterpreted function (e.g. a
				// hash collision between 1-byte keys): not realisable natively
				continue
			}
			seenWL[key] = true
			perHarness[wj.j.Harness]++
			f := filepath.Join(outDir, fmt.Sprintf("witness-%d.json", len(wjobs)))
			writeJSON(f, replayFile{Property: *propID, Harness: wj.j.Harness, Bounds: wj.j.Bounds, Inputs: wj.w.Inputs, Known: known, Label: wj.w.Label, Kind: "witness", Extra: wj.w.Extra})
			wjobs = append(wjobs, wjob{f, wj.w.Label, wj.j.Harness})
		}
		type wres struct {
			rr  *replayResult
			err error
		}
		wr := make([]wres, len(wjobs))
		parallel(len(wjobs), *workers, func(i int) {
			rr, err := runReplay(replayBin, wjobs[i].file, 60*time.Second)
			wr[i] = wres{rr, err}
		})
		for i, w := range wjobs {
			rr, err := wr[i].rr, wr[i].err
			switch {
			case err != nil:
				inconclusive = append(inconclusive, fmt.Sprintf("witness replay %s failed to run: %v", w.file, err))
			case rr.Infeasible && !contains(rr.Reached, w.label):
				inconclusive = append(inconclusive, fmt.Sprintf("translation validation: witness %s (%s/%s) is infeasible natively", w.file, w.h, w.label))
			case !contains(rr.Reached, w.label):
				inconclusive = append(inconclusive, fmt.Sprintf("translation validation: native run of %s does not reach %q", w.file, w.label))
			case len(rr.Failed) > 0:
				inconclusive = append(inconclusive, fmt.Sprintf("translation validation: native run of witness %s fails %v although the engine discharged it", w.file, rr.Failed))
			default:
				validated++
			}
		}
		// counterexamples
		for i, c := range cands {
			f := filepath.Join(outDir, fmt.Sprintf("cex-%d.json", i))
			writeJSON(f, replayFile{Property: *propID, Harness: c.j.Harness, Bounds: c.j.Bounds, Inputs: c.v.Inputs, Known: known, Label: c.v.Label, Kind: c.v.Kind, Pos: c.v.Pos, Extra: c.v.Extra, Choices: c.v.Choices})
			tmo := 60 * time.Second
			if c.v.Kind == "unwind" {
				tmo = 10 * time.Second
			}
			var rr *replayResult
			var err error
			confirmed := false
			if c.j.Bounds["sched_replay"] == 1 {
				// schedule counterexample: validated by the worker's concrete re-execution
				confirmed = c.v.Confirmed != ""
				if !confirmed {
					inconclusive = append(inconclusive, fmt.Sprintf("schedule counterexample %s (%s: %s) did not reproduce in the concrete re-execution", f, c.j.Harness, c.v.Label))
				}
				err = fmt.Errorf("n/a")
			} else {
				rr, err = runReplay(replayBin, f, tmo)
			}
			switch {
			case c.j.Bounds["sched_replay"] == 1:
			case err == errReplayTimeout && c.v.Kind == "unwind":
				confirmed = true
			case err != nil:
				inconclusive = append(inconclusive, fmt.Sprintf("counterexample replay %s failed to run: %v", f, err))
			case c.v.Kind == "panic" || c.v.Kind == "deadlock":
				for _, l := range rr.Failed {
					if strings.HasPrefix(l, "panic") {
						confirmed = true
					}
				}
			default:
				confirmed = contains(rr.Failed, c.v.Label)
			}
			if confirmed {
				validated++
				if c.v.Known != "" {
					knownHit[c.v.Known] = true
					continue
				}
				violations++
				vioLines = append(vioLines, fmt.Sprintf("VIOLATION property=%s replay=%s", *propID, f))
				if violations <= 5 {
					ev.Coverage["violation_"+strconv.Itoa(violations)] = fmt.Sprintf("%s: %s at %s", c.j.Harness, c.v.Label, c.v.Pos)
				}
			} else if err == nil {
				inconclusive = append(inconclusive, fmt.Sprintf("counterexample %s (%s: %s) does not reproduce natively: encoder or stub mismatch", f, c.j.Harness, c.v.Label))
			}
		}
	} else if len(cands) > 0 || *noReplay {
		inconclusive = append(inconclusive, "native replay unavailable")
	}

	// 5. known findings
	for _, e := range knownEntries {
		if e.Property != *propID || e.Status != "known" {
			continue
		}
		if knownHit[e.ID] {
			fmt.Printf("KNOWN-FINDING: property=%s %s (%s)\n", *propID, e.What, e.ID)
		} else {
			fmt.Printf("NOTE: known finding %s no longer reproduces within the explored bounds\n", e.ID)
		}
	}

	// 6. evidence
	ev.Coverage["traces_validated_against_impl"] = validated
	ev.Coverage["inconclusive"] = inconclusive
	ev.Coverage["reach_labels"] = reachedAll
	ev.Coverage["design_ref"] = prop.DesignRef
	ev.Violations = violations
	ev.Assumptions = append(ev.Assumptions, prop.Assumptions...)
	ev.WallS = time.Since(t0).Seconds()
	ev.finish()
	writeJSON(filepath.Join(*verif, "evidence", *propID+".json"), ev)

	for _, l := range vioLines {
		fmt.Println(l)
	}
	fmt.Printf("%s %s: jobs=%d paths=%d obligations=%d discharged=%d queries=%d solver=%.1fs replays=%d wall=%.1fs\n",
		*propID, *tier, len(jobs), ev.Coverage["states"], ev.Coverage["obligations"], ev.Coverage["discharged"], ev.Coverage["queries"], ev.Coverage["solver_s"], validated, ev.WallS)
	if violations > 0 {
		return 1
	}
	if len(inconclusive) > 0 {
		for _, m := range inconclusive {
			fmt.Println("INCONCLUSIVE:", m)
		}
		return 2
	}
	return 0
}

func flagSet(fs *flag.FlagSet, name string) bool {
	set := false
	fs.Visit(func(f *flag.Flag) {
		if f.Name == name {
			set = true
		}
	})
	return set
}

func contains(xs []string, s string) bool {
	for _, x := range xs {
		if x == s {
			return true
		}
	}
	return false
}

func hashStr(s string) uint32 {
	h := uint32(2166136261)
	for i := 0; i < len(s); i++ {
		h = (h ^ uint32(s[i])) * 16777619
	}
	return h
}

func parallel(n, workers int, f func(i int)) {
	var wg sync.WaitGroup
	ch := make(chan int)
	for w := 0; w < workers && w < n; w++ {
		wg.Add(1)
		go func() {
			defer wg.Done()
			for i := range ch {
				f(i)
			}
		}()
	}
	for i := 0; i < n; i++ {
		ch <- i
	}
	close(ch)
	wg.Wait()
}

// runJobs runs the jobs on a pool of worker processes (`gosym serve`).
func runJobs(jobs []job, workers int, repo, hdir, known, tier string) []*WorkerResult {
	results := make([]*WorkerResult, len(jobs))
	if len(jobs) == 0 {
		return results
	}
	if workers > len(jobs) {
		workers = len(jobs)
	}
	self, _ := os.Executable()
	type item struct {
		idx int
	}
	ch := make(chan int)
	var wg sync.WaitGroup
	for w := 0; w < workers; w++ {
		wg.Add(1)
		go func() {
			defer wg.Done()
			var cmd *osexec.Cmd
			var in *json.Encoder
			var out *bufio.Reader
			start := func() error {
				cmd = osexec.Command(self, "serve", "-repo", repo, "-harness-dir", hdir, "-known", known, "-tier", tier)
				cmd.Stderr = os.Stderr
				ip, err := cmd.StdinPipe()
				if err != nil {
					return err
				}
				op, err := cmd.StdoutPipe()
				if err != nil {
					return err
				}
				if err := cmd.Start(); err != nil {
					return err
				}
				in = json.NewEncoder(ip)
				out = bufio.NewReaderSize(op, 1<<20)
				return nil
			}
			if err := start(); err != nil {
				fmt.Fprintln(os.Stderr, "worker start:", err)
				for range ch {
				}
				return
			}
			for idx := range ch {
				if err := in.Encode(jobs[idx]); err != nil {
					fmt.Fprintln(os.Stderr, "worker send:", err)
					continue
				}
				line, err := out.ReadBytes('\n')
				if err != nil {
					fmt.Fprintln(os.Stderr, "worker died on", jobs[idx].Harness, boundsStr(jobs[idx].Bounds))
					cmd.Wait()
					if err := start(); err != nil {
						for range ch {
						}
						return
					}
					continue
				}
				var r WorkerResult
				if err := json.Unmarshal(line, &r); err != nil {
					fmt.Fprintln(os.Stderr, "worker result:", err)
					continue
				}
				results[idx] = &r
			}
			cmd.Process.Kill()
			cmd.Wait()
		}()
	}
	for i := range jobs {
		ch <- i
	}
	close(ch)
	wg.Wait()
	return results
}

// solverKind: z3 5.1.0 (z3-new) by default (about twice as fast as 4.8.12 on
// these incremental streams); bounds may select another back end.
func solverKind(b map[string]int) string {
	switch b["solver"] {
	case 1:
		return "z3"
	case 2:
		return "cvc5"
	}
	return "z3-new"
}

func cmdServe(args []string) int {
	fs := flag.NewFlagSet("serve", flag.ExitOnError)
	repo := fs.String("repo", "/repo", "")
	hdir := fs.String("harness-dir", "/verif/harness", "")
	knownF := fs.String("known", "/verif/known_findings.json", "")
	tier := fs.String("tier", "quick", "")
	fs.Parse(args)
	t0 := time.Now()
	p, err := load.Load(*repo, *hdir, "./...")
	loadS := time.Since(t0).Seconds()
	known := loadKnown(*knownF)
	dec := json.NewDecoder(os.Stdin)
	w := bufio.NewWriter(os.Stdout)
	for {
		var j job
		if err := dec.Decode(&j); err != nil {
			return 0
		}
		var res *WorkerResult
		if err != nil {
			res = &WorkerResult{Harness: j.Harness, Bounds: j.Bounds, Error: "load: " + err.Error()}
		} else {
			tmo := 30000 // per query; a query still undecided after it is `unknown` => exit 2, never a pass
			if *tier == "thorough" {
				tmo = 120000
			}
			if v, ok := j.Bounds["query_timeout_ms"]; ok {
				tmo = v
			}
			var budget time.Duration
			if v, ok := j.Bounds["budget_s"]; ok {
				budget = time.Duration(v) * time.Second
			}
			res = runWorker(p, loadS, j.Harness, j.Bounds, solverKind(j.Bounds), tmo, budget, known, 0)
		}
		data, _ := json.Marshal(res)
		w.Write(data)
		w.WriteByte('\n')
		w.Flush()
	}
}

// ------------------------------------------------------------------ replay

func buildReplay(repo, hdir, outDir, bin string) (string, error) {
	ov, err := load.Overlay(repo, hdir)
	if err != nil {
		return "", err
	}
	rep := map[string]string{}
	for virt := range ov {
		rel, _ := filepath.Rel(filepath.Join(repo, "internal", "zzverif"), virt)
		rep[virt] = filepath.Join(hdir, rel)
	}
	// instrumented copies of the klevdb files that mutate the file system (crash replay)
	ir, err := instr.Instrument(repo, filepath.Join(outDir, "instr"))
	if err != nil {
		return "instrumentation: " + err.Error(), err
	}
	if len(ir.Unsupported) > 0 {
		return strings.Join(ir.Unsupported, "\n"), fmt.Errorf("instrumentation: unsupported statement shape")
	}
	for real, inst := range ir.Files {
		rep[real] = inst
	}
	ovFile := filepath.Join(outDir, "overlay.json")
	writeJSON(ovFile, map[string]any{"Replace": rep})
	cmd := osexec.Command("go", "test", "-c", "-vet=off", "-tags", "verif", "-overlay", ovFile, "-o", bin, load.Module+"/internal/zzverif/replay")
	cmd.Dir = repo
	cmd.Env = append(os.Environ(), "GOFLAGS=-mod=mod", "GOPROXY=off")
	out, err := cmd.CombinedOutput()
	return string(out), err
}

type replayResult struct {
	Infeasible bool
	Failed     []string
	Reached    []string
	Obs        []string
	Raw        string
}

var errReplayTimeout = fmt.Errorf("replay timed out")

func runReplay(bin, file string, timeout time.Duration) (*replayResult, error) {
	ctx, cancel := context.WithTimeout(context.Background(), timeout)
	defer cancel()
	cmd := osexec.CommandContext(ctx, bin, "-test.run", "^TestVerifReplay$", "-test.v", "-test.count=1")
	cmd.Env = append(os.Environ(), "VERIF_REPLAY="+file)
	var buf bytes.Buffer
	cmd.Stdout = &buf
	cmd.Stderr = &buf
	err := cmd.Run()
	if ctx.Err() == context.DeadlineExceeded {
		return nil, errReplayTimeout
	}
	rr := &replayResult{Raw: buf.String()}
	got := false
	for _, line := range strings.Split(buf.String(), "\n") {
		line = strings.TrimSpace(line)
		switch {
		case strings.HasPrefix(line, "REPLAY-RESULT "):
			got = true
			rr.Infeasible = strings.Contains(line, "infeasible=true")
		case strings.HasPrefix(line, "REPLAY-FAILED "):
			rr.Failed = append(rr.Failed, strings.TrimPrefix(line, "REPLAY-FAILED "))
		case strings.HasPrefix(line, "REPLAY-REACHED "):
			rr.Reached = append(rr.Reached, strings.TrimPrefix(line, "REPLAY-REACHED "))
		case strings.HasPrefix(line, "REPLAY-OBS "):
			rr.Obs = append(rr.Obs, strings.TrimPrefix(line, "REPLAY-OBS "))
		}
	}
	if !got {
		return nil, fmt.Errorf("no REPLAY-RESULT line (err=%v): %s", err, tail(buf.String(), 400))
	}
	return rr, nil
}

func tail(s string, n int) string {
	if len(s) > n {
		return s[len(s)-n:]
	}
	return s
}

// cmdReplay: gosym replay <file> — rebuilds the replay binary and runs one model.
func cmdReplay(args []string) int {
	fs := flag.NewFlagSet("replay", flag.ExitOnError)
	repo := fs.String("repo", "/repo", "")
	verif := fs.String("verif", "/verif", "")
	fs.Parse(args)
	if fs.NArg() != 1 {
		fmt.Fprintln(os.Stderr, "usage: gosym replay <file>")
		return 2
	}
	// schedule counterexamples are re-executed concretely by the engine
	if data, err := os.ReadFile(fs.Arg(0)); err == nil {
		var rf replayFile
		if json.Unmarshal(data, &rf) == nil && rf.Bounds["sched_replay"] == 1 {
			p, err := load.Load(*repo, filepath.Join(*verif, "harness"), "./...")
			if err != nil {
				fmt.Fprintln(os.Stderr, err)
				return 2
			}
			fn, err := findHarness(p, rf.Harness)
			if err != nil {
				fmt.Fprintln(os.Stderr, err)
				return 2
			}
			v := &exec.Violation{Label: rf.Label, Kind: rf.Kind, Inputs: rf.Inputs, Choices: rf.Choices}
			if confirmConcrete(p, fn, exec.Config{Bounds: rf.Bounds}, "z3-new", 10000, v) {
				fmt.Printf("concrete re-execution under the recorded schedule fails %q\n", rf.Label)
				return 1
			}
			fmt.Println("concrete re-execution does not fail the assertion")
			return 0
		}
	}
	outDir := filepath.Join(*verif, "out", "replay")
	os.MkdirAll(outDir, 0755)
	bin := filepath.Join(outDir, "replay.test")
	if out, err := buildReplay(*repo, filepath.Join(*verif, "harness"), outDir, bin); err != nil {
		fmt.Fprintln(os.Stderr, out, err)
		return 2
	}
	rr, err := runReplay(bin, fs.Arg(0), 120*time.Second)
	if err != nil {
		fmt.Println("replay:", err)
		if err == errReplayTimeout {
			return 1
		}
		return 2
	}
	fmt.Print(rr.Raw)
	if len(rr.Failed) > 0 {
		return 1
	}
	return 0
}
