package main

import (
	"encoding/json"
	"os"
)

type knownEntry struct {
	Property string   `json:"property"`
	ID       string   `json:"id"`
	Status   string   `json:"status"`
	Commit   string   `json:"commit,omitempty"`
	What     string   `json:"what"`
	Labels   []string `json:"labels,omitempty"`
}

func loadKnownEntries(path string) []knownEntry {
	data, err := os.ReadFile(path)
	if err != nil {
		return nil
	}
	var f struct {
		Findings []knownEntry `json:"findings"`
	}
	if json.Unmarshal(data, &f) != nil {
		return nil
	}
	return f.Findings
}

func loadKnown(path string) map[string]string {
	m := map[string]string{}
	for _, e := range loadKnownEntries(path) {
		m[e.ID] = e.Status
	}
	return m
}

func cmdCheck(args []string) int { return 2 }
