package main

import (
	"fmt"
	"sort"
	"strings"
)

type Evidence struct {
	PropertyID  string         `json:"property_id"`
	Tier        string         `json:"tier"`
	Seed        int            `json:"seed"`
	Level       string         `json:"level"`
	Coverage    map[string]any `json:"coverage"`
	Assumptions []string       `json:"assumptions"`
	WallS       float64        `json:"wall_s"`
	Violations  int            `json:"violations"`

	funcs    map[string]int64
	stubs    map[string]int
	harness  map[string]*harnessSum
	samples  []string
	assumes  map[string]bool
	states   int
	trans    int64
	obl, dis int
	q        [3]int
	solverS  float64
	unwind   int
	forks    int
	infeas   int
	cpuS     float64
	maxQS    float64
	slowQ    int
	retried  int
}

type harnessSum struct {
	Jobs        int            `json:"jobs"`
	Paths       int            `json:"paths"`
	Obligations int            `json:"obligations"`
	Discharged  int            `json:"discharged"`
	Bounds      map[string]int `json:"bounds"`
	WallS       float64        `json:"cpu_s"`
}

func newEvidence(prop, tier string, seed int) *Evidence {
	return &Evidence{PropertyID: prop, Tier: tier, Seed: seed, Level: "model_checking", Coverage: map[string]any{},
		funcs: map[string]int64{}, stubs: map[string]int{}, harness: map[string]*harnessSum{}, assumes: map[string]bool{}}
}

func (e *Evidence) addResult(r *WorkerResult) {
	e.states += r.Paths
	e.trans += r.Instrs
	e.obl += r.Obligations
	e.dis += r.Discharged
	e.q[0] += r.Sat
	e.q[1] += r.Unsat
	e.q[2] += r.Unknown
	e.solverS += r.SolverS
	e.cpuS += r.WallS
	if r.MaxQS > e.maxQS {
		e.maxQS = r.MaxQS
	}
	e.slowQ += r.SlowQ
	e.retried += r.Retried
	e.unwind += r.UnwindHits
	e.forks += r.Forks
	e.infeas += r.PathsInfeas
	for f, n := range r.Funcs {
		e.funcs[f] += n
	}
	for s, n := range r.Stubs {
		e.stubs[s] += n
	}
	for _, a := range r.Assumes {
		e.assumes[a] = true
	}
	h := e.harness[r.Harness]
	if h == nil {
		h = &harnessSum{Bounds: map[string]int{}}
		e.harness[r.Harness] = h
	}
	h.Jobs++
	h.Paths += r.Paths
	h.Obligations += r.Obligations
	h.Discharged += r.Discharged
	h.WallS += r.WallS
	for k, v := range r.Bounds {
		if !strings.HasPrefix(k, "fix.") {
			h.Bounds[k] = v
		}
	}
	if len(e.samples) < 10 {
		for _, s := range r.Samples {
			if len(e.samples) < 10 {
				e.samples = append(e.samples, r.Harness+" ["+boundsStr(r.Bounds)+"] "+s)
			}
		}
	}
}

func (e *Evidence) finish() {
	c := e.Coverage
	c["states"] = e.states
	c["transitions"] = e.trans
	c["obligations"] = e.obl
	c["discharged"] = e.dis
	c["queries"] = e.q[0] + e.q[1] + e.q[2]
	c["queries_sat"] = e.q[0]
	c["queries_unsat"] = e.q[1]
	c["queries_unknown"] = e.q[2]
	c["solver_s"] = e.solverS
	c["worker_cpu_s"] = e.cpuS
	c["max_query_s"] = e.maxQS
	c["queries_slower_than_50ms"] = e.slowQ
	c["queries_unknown_then_unsat_in_fresh_solver"] = e.retried
	c["unwinding_bound_hits"] = e.unwind
	c["forks"] = e.forks
	c["paths_ended_by_assume"] = e.infeas
	if len(e.samples) == 0 {
		e.samples = []string{"(no obligation reached)"}
	}
	c["samples"] = e.samples
	c["harnesses"] = e.harness
	c["solver"] = "z3 5.1.0 (z3-new -in), one incremental process per worker, push/pop along the DFS; 4.8.12 and cvc5 selectable for cross-checks"
	c["explanation"] = "states = symbolic paths completed; transitions = SSA instructions executed symbolically; obligations = vrt.Assert and implicit run-time checks reached on feasible paths, each decided by a solver query path-condition AND NOT assertion (discharged = unsat); traces_validated_against_impl = solver models (reachability witnesses and counterexamples) replayed natively against the real build."
	// functions encoded: klevdb code and library code executed from SSA
	type fe struct {
		Name   string `json:"name"`
		Instrs int64  `json:"ssa_instructions_executed"`
	}
	var fes []fe
	for f, n := range e.funcs {
		if strings.Contains(f, "/internal/zzverif/") {
			continue
		}
		fes = append(fes, fe{f, n})
	}
	sort.Slice(fes, func(i, j int) bool { return fes[i].Name < fes[j].Name })
	c["functions_encoded"] = fes
	var st []string
	for s, n := range e.stubs {
		if strings.Contains(s, "/internal/zzverif/vrt.") {
			continue
		}
		st = append(st, fmt.Sprintf("%s x%d", s, n))
	}
	sort.Strings(st)
	c["stubs_used"] = st
	for a := range e.assumes {
		e.Assumptions = append(e.Assumptions, a)
	}
	sort.Strings(e.Assumptions)
	if e.Assumptions == nil {
		e.Assumptions = []string{}
	}
}
